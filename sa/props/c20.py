"""C20 - integer, vector and matrix helpers (decided part: log2i's builtin width agrees
with its constant for every integer type and never passes through a narrower floating
type; Euclid loop; component-wise shape of the vector operators; matrix index
conventions; full and paired row operations in invert; random_int result form).
Coprimality of reduce_fraction, inverse accuracy and random_data accounting are not decided."""
import re

from ast_ import *
from bits import *
from path import *

COMP = {2: ['x', 'y'], 3: ['x', 'y', 'z'], 4: ['x', 'y', 'z', 'w']}
BIN_TOK = {'operator+': '+', 'operator-': '-', 'operator*': '*', 'operator/': '/', 'operator%': '%'}
CMP_TOK = {'operator+=': '+=', 'operator-=': '-=', 'operator*=': '*=', 'operator/=': '/=', 'operator%=': '%='}


def N(n):
    return nf(n).replace('..', '.')


def targs(f):
    return [c['type']['qualType'] for c in kids(f) if c.get('kind') == 'TemplateArgument' and 'type' in c]


def ret_expr(f):
    rs = [r for r in walk(body_of(f)) if r.get('kind') == 'ReturnStmt']
    return kids(rs[0])[0] if len(rs) == 1 and kids(rs[0]) else None


def ctor_args(e):
    """arguments of the VectorN(...) construction returned by an operator"""
    x = strip(e)
    while x is not None and x.get('kind') in ('CXXConstructExpr', 'CXXFunctionalCastExpr', 'CXXTemporaryObjectExpr') and len([a for a in kids(x)]) == 1:
        x = strip(kids(x)[0])
    if x is not None and x.get('kind') in ('CXXConstructExpr', 'CXXTemporaryObjectExpr', 'CXXFunctionalCastExpr'):
        return [a for a in kids(x)]
    return None


def run(ctx):
    ctx.rule('C20-R1', 'log2i<IntT> for the 8 integer types: result = (W-1) - clz(v) with W the bit width of the builtin\'s parameter, v widened without loss, never routed through a floating type narrower than IntT; gcd is the Euclid loop', 16)
    ctx.rule('C20-R2', 'Vector2/3/4: every binary and compound operator is component-wise with its own operator token; == conjoins all components; < is the lexicographic ladder; dot/norm2 sum like-indexed products; cross has the cyclic pattern; at(i) indexes the object as an array of T; Matrix4 element-wise operators likewise', 70)
    ctx.rule('C20-R3', 'Matrix4: M*v uses m[j][i] as the coefficient of v_j in row i; M*N accumulates this.m[z][y]*other.m[x][z] into res.m[x][y]; transposition swaps indices; invert applies every row operation to both matrices over all four columns', 12)
    ctx.rule('C20-R6', 'no const reference (local, or parameter of a local helper) in the vector / matrix code is bound to an element that is overwritten while the reference is still read; every row operation of Matrix4::invert runs over all four columns', 1)
    ctx.rule('C20-R5', 'random_data: every copy writes through the one destination cursor the refill loop advances; each turn copies, subtracts and advances by the same amount before refilling; the tail takes exactly the remaining bytes from the pool', 3)
    ctx.rule('C20-R4', 'random_int: every return is low + (U % range) with U an unsigned random value at least as wide as the range class chosen by the thresholds', 5)
    w = ctx.unit(witness_unit('c20.cc'))
    ur = ctx.unit(repo_unit('Random.cc'))

    # ---------------- R1
    with ctx.section('C20-R1', 'Vector-inl.hh'):
        R = 'C20-R1'
        CLZ = {'__builtin_clz': 32, '__builtin_clzl': 64, '__builtin_clzll': 64}
        ls = [f for f in w.funcs('phosg::log2i') if targs(f)]
        ctx.require(len(ls) == 8, 'log2i instantiations: %d' % len(ls))
        for f in ls:
            t = targs(f)[0]
            bits = int_type_info(t)[0]
            lab = 'log2i<%s>' % t
            ctx.fn(lab)
            e = ret_expr(f)
            fl = [x for x in walk(body_of(f)) if x.get('castKind') == 'IntegralToFloating']
            mant = {'double': 53, 'float': 24, 'long double': 64}
            narrow = [x for x in fl if mant.get(dtype(x), 0) < bits]
            if fl:
                ctx.check(not narrow, R, lab + '|no-lossy-float', narrow[0] if narrow else f, 'floating route is exact for %d-bit values' % bits, 'log2i converts its %d-bit operand to %s (%d-bit significand): values just below a power of two round up and the result is one too large' % (bits, dtype(narrow[0]) if narrow else '', mant.get(dtype(narrow[0]), 0) if narrow else 0))
                if not narrow:
                    continue
            cl = [c for c in walk(body_of(f)) if c.get('kind') == 'CallExpr' and call_name(c) in CLZ]
            ok = e is not None and len(cl) == 1
            why = 'result is not W-1 - clz(v)'
            if ok:
                W = CLZ[call_name(cl[0])]
                s = strip(e)
                # (C - clz(cast v)) possibly converted to IntT
                while s.get('kind') in ('CStyleCastExpr', 'CXXStaticCastExpr', 'CXXFunctionalCastExpr', 'ImplicitCastExpr') and s.get('inner'):
                    s = strip(s['inner'][0])
                from poly import Poly as _Poly
                PL_ = _Poly(f, w)
                cpoly = PL_.poly(s['inner'][0]) if s.get('kind') == 'BinaryOperator' and s.get('inner') else None
                # (W-1) ^ clz(v) is (W-1) - clz(v): clz is in [0, W-1] and W-1 has all of those bits set
                if s.get('kind') == 'BinaryOperator' and s.get('opcode') == '^' and s.get('inner'):
                    for ci_, oi_ in ((0, 1), (1, 0)):
                        cp_ = PL_.poly(s['inner'][ci_])
                        if (cp_ == {} or list(cp_) == [()]) and any(x is cl[0] for x in walk(s['inner'][oi_])) and cp_.get((), 0) == W - 1 and W & (W - 1) == 0:
                            s = {'kind': 'BinaryOperator', 'opcode': '-', 'inner': [s['inner'][ci_], s['inner'][oi_]]}
                            cpoly = cp_
                            break
                ok = s.get('kind') == 'BinaryOperator' and s.get('opcode') == '-' and cpoly is not None and (cpoly == {} or list(cpoly) == [()]) and any(x is cl[0] for x in walk(s['inner'][1]))
                if ok:
                    C = cpoly.get((), 0)
                    arg = strip(call_args(cl[0])[0], casts=False)
                    at = dtype(arg)
                    ai = int_type_info(at)
                    src = arg
                    chain_ok = True
                    for _ in range(8):
                        while src.get('kind') in ('CStyleCastExpr', 'CXXStaticCastExpr', 'CXXFunctionalCastExpr', 'ImplicitCastExpr', 'ParenExpr') and src.get('inner'):
                            ti_ = int_type_info(dtype(src) or '')
                            chain_ok = chain_ok and ti_ is not None and ti_[0] >= bits
                            src = src['inner'][0]
                        init_ = PL_.single(ref_decl(src)) if src.get('kind') == 'DeclRefExpr' else None
                        if init_ is None:
                            break
                        ti_ = int_type_info(dtype(src) or '')
                        chain_ok = chain_ok and ti_ is not None and ti_[0] >= bits
                        src = init_
                    is_v = (ref_decl(src) or {}).get('id') == params_of(f)[0]['id']
                    widen_ok = ai is not None and ai[0] == W and not ai[1] and W >= bits and chain_ok
                    ok = C == W - 1 and is_v and widen_ok
                    why = 'log2i computes %d - %s(%s): the builtin counts leading zeros of a %d-bit operand, so the constant must be %d%s' % (C, call_name(cl[0]), at, W, W - 1, '' if widen_ok else ' and the %d-bit argument must be widened to it as unsigned' % bits)
            ctx.check(ok, R, lab + '|width-agreement', f, 'result = %s - clz over the builtin\'s own width' % (CLZ[call_name(cl[0])] - 1 if cl else '?'), why)
        gs = [f for f in w.funcs('phosg::gcd') if targs(f)]
        ctx.require(len(gs) == 8, 'gcd instantiations: %d' % len(gs))
        for f in gs:
            t = targs(f)[0]
            body = body_of(f)
            lp = [x for x in walk(body) if x.get('kind') == 'WhileStmt']
            ok = len(lp) == 1 and N(while_parts(lp[0])[0]) in ('(0 != b)', '(b != 0)', 'b')
            why = 'gcd is not a `while (b != 0)` loop'
            if ok:
                # one turn of the loop, executed abstractly from symbolic (a, b): it must produce (b, a mod b)
                pa_, pb_ = params_of(f)[0], params_of(f)[1]
                wi_ = width_of_type(dtype(pa_)) or (64, False)
                Xg = BVExec(w)
                env_ = {pa_['id']: sym_bv('a', wi_[0], wi_[1]), pb_['id']: sym_bv('b', wi_[0], wi_[1])}
                try:
                    Xg.run([loop_body(lp[0])], env_, 0)
                    na, nb = env_[pa_['id']], env_[pb_['id']]
                    # integer promotion: the remainder is formed in int for narrow types, then narrowed back
                    cands = []
                    for W_ in sorted({wi_[0], 32, 64}):
                        if W_ < wi_[0]:
                            continue
                        sa = Xg.cast(sym_bv('a', wi_[0], wi_[1]), {8: 'signed char', 16: 'short', 32: 'int', 64: 'long'}[W_] if (wi_[1] or W_ > wi_[0]) else {8: 'unsigned char', 16: 'unsigned short', 32: 'unsigned int', 64: 'unsigned long'}[W_])
                        sb = Xg.cast(sym_bv('b', wi_[0], wi_[1]), {8: 'signed char', 16: 'short', 32: 'int', 64: 'long'}[W_] if (wi_[1] or W_ > wi_[0]) else {8: 'unsigned char', 16: 'unsigned short', 32: 'unsigned int', 64: 'unsigned long'}[W_])
                        cands.append(u_op('mod', sa.b, sb.b, W_, commutative=False)[:wi_[0]])
                    rets_ = [r_ for r_ in walk(body) if r_.get('kind') == 'ReturnStmt' and kids(r_)]
                    final_ok = bool(rets_) and rets_[-1].get('_off', 0) > lp[0].get('_off', 0) and N(kids(rets_[-1])[0]) == 'a' and rets_[-1].get('_p') is body
                    early_ok = True
                    for r_ in rets_[:-1]:
                        # an early exit may only state gcd(a, 0) = a or gcd(0, b) = b
                        fs_ = {(N(x_[0]), x_[1], N(x_[2])) for x_ in [relation(n_, p_) for n_, p_ in atoms(path_facts(r_))] if x_}
                        v_ = N(kids(r_)[0])
                        early_ok = early_ok and r_.get('_off', 0) < lp[0].get('_off', 0) and ((v_ == 'a' and (('b', '==', '0') in fs_ or ('0', '==', 'b') in fs_)) or (v_ == 'b' and (('a', '==', '0') in fs_ or ('0', '==', 'a') in fs_)))
                    ok = list(na.b[:wi_[0]]) == list(sym_bv('b', wi_[0], wi_[1]).b) and list(nb.b[:wi_[0]]) in cands and final_ok and early_ok
                    why = 'one turn of the gcd loop does not map (a, b) to (b, a mod b), or the result is not a'
                except Unsupported as e_:
                    ctx.undecided(R, 'gcd<%s>|euclid' % t, f, 'the gcd loop body is outside the supported statement forms (%s)' % e_)
                    continue
            ctx.check(ok, R, 'gcd<%s>|euclid' % t, f, 'while (b) { (a, b) = (b, a mod b) } return a', why)

    # ---------------- R2
    with ctx.section('C20-R2', 'Vector-inl.hh'):
        R = 'C20-R2'
        for n in (2, 3, 4):
            comps = COMP[n]
            cls = 'phosg::Vector%d<long>' % n
            ms = {}
            for f in w.functions:
                if w.qualname(f).startswith(cls + '::') and not is_dependent_pattern(f, w):
                    ms.setdefault(f['name'], []).append(f)
            ctx.require(len(ms) >= 15, '%s members not found (%d)' % (cls, len(ms)))
            lab0 = 'Vector%d' % n
            for nm, tok in BIN_TOK.items():
                for f in ms.get(nm, []):
                    ps = params_of(f)
                    if not ps:
                        # unary minus
                        a = ctor_args(ret_expr(f))
                        ok = a is not None and [N(x) for x in a] == ['-this.%s' % c for c in comps]
                        ctx.check(ok, R, '%s|unary-|components' % lab0, f, 'negates each component', 'unary minus is %s' % ([N(x) for x in a] if a else None))
                        continue
                    vec = 'Vector' in (qtype(ps[0]) or '')
                    a = ctor_args(ret_expr(f))
                    want = ['(this.%s %s other%s)' % (c, tok, ('.' + c) if vec else '') for c in comps]
                    got = [N(x) for x in a] if a else None
                    if got is not None and tok in ('+', '*'):
                        want = ['(' + (' %s ' % tok).join(sorted(['this.%s' % c, 'other' + (('.' + c) if vec else '')])) + ')' for c in comps]
                    ctx.fn('%s::%s' % (lab0, nm))
                    ctx.check(got == want, R, '%s|%s(%s)|components' % (lab0, nm, 'vector' if vec else 'scalar'), f, 'component c = this.c %s other(.c)' % tok, '%s is not component-wise with `%s`: %s' % (nm, tok, got))
            for nm, tok in CMP_TOK.items():
                for f in ms.get(nm, []):
                    ps = params_of(f)
                    vec = 'Vector' in (qtype(ps[0]) or '')
                    st = [N(s) for s in stmts_of(body_of(f)) if s.get('kind') != 'ReturnStmt']
                    want = ['(this.%s %s other%s)' % (c, tok, ('.' + c) if vec else '') for c in comps]
                    ctx.check(st == want, R, '%s|%s(%s)|components' % (lab0, nm, 'vector' if vec else 'scalar'), f, 'this.c %s other(.c) for each component' % tok, '%s is not component-wise: %s' % (nm, st))
            eq = ms.get('operator==', [None])[0]
            if eq is not None:
                e = N(ret_expr(eq))
                want = '(' + ' && '.join('(other.%s == this.%s)' % (c, c) for c in comps) + ')'
                ctx.check(e == want, R, lab0 + '|operator==|all-components', eq, 'equal iff every component is equal', 'operator== is %s' % e)
            lt = ms.get('operator<', [None])[0]
            if lt is not None:
                seq = []
                for s in stmts_of(body_of(lt)):
                    if s.get('kind') == 'IfStmt':
                        r = [x for x in walk(if_parts(s)[1]) if x.get('kind') == 'ReturnStmt']
                        seq.append((N(if_parts(s)[0]), int_value(kids(r[0])[0]) if r else None))
                    elif s.get('kind') == 'ReturnStmt':
                        seq.append((N(kids(s)[0]), 'ret'))
                want = []
                for c in comps[:-1]:
                    want.append(('(this.%s < other.%s)' % (c, c), 1))
                    want.append(('(other.%s < this.%s)' % (c, c), 0))
                want.append(('(this.%s < other.%s)' % (comps[-1], comps[-1]), 'ret'))
                # operator< touches the components only through comparisons, so it is decided exhaustively over
                # the 3^n orderings of the component pairs (each pair <, = or >): the result must be the
                # lexicographic one.  Any shape (ladder, shared helper, loop over at(i)) is accepted.
                import itertools
                from peval import PEval, Vec, Undecided, Fault
                PEo = PEval([w])
                bad_o = None
                undec = None
                for combo in itertools.product('<=>', repeat=len(comps)):
                    PEo.ordering = dict(enumerate(combo))
                    frame_this = Vec('a', list(comps))
                    try:
                        frame = {params_of(lt)[0]['id']: Vec('b', list(comps)), '__this__': frame_this}
                        try:
                            PEo.run([body_of(lt)], frame, 1)
                            got = None
                        except Exception as e_:
                            if e_.__class__.__name__ != '_Return':
                                raise
                            got = e_.v
                    except Undecided as e_:
                        undec = str(e_)
                        break
                    except Fault as e_:
                        bad_o = (combo, 'faults: %s' % e_)
                        break
                    first = next((o for o in combo if o != '='), '=')
                    want_o = 1 if first == '<' else 0
                    if got != want_o:
                        bad_o = (combo, 'returns %s' % got)
                        break
                if undec is not None:
                    ctx.undecided(R, lab0 + '|operator<|lexicographic', lt, 'operator< could not be folded over the component orderings (%s)' % undec)
                else:
                    ctx.check(bad_o is None, R, lab0 + '|operator<|lexicographic', lt, 'lexicographic over %s on all %d component orderings' % (comps, 3 ** len(comps)),
                              'operator< is not the strict lexicographic order (it must be a strict weak order consistent with ==): with components %s it %s' % (', '.join('%s: this %s other' % (c_, o_) for c_, o_ in zip(comps, bad_o[0])) if bad_o else '', bad_o[1] if bad_o else ''))
            for nm, a_, b_ in (('dot', 'this', 'other'), ('norm2', 'this', 'this')):
                f = ms.get(nm, [None])[0]
                if f is not None:
                    e = N(ret_expr(f))
                    terms = sorted('(' + ' * '.join(sorted(['%s.%s' % (a_, c), '%s.%s' % (b_, c)])) + ')' for c in comps)
                    ctx.check(e == '(' + ' + '.join(terms) + ')', R, '%s|%s|sum-of-products' % (lab0, nm), f, 'sum over components of %s.c * %s.c' % (a_, b_), '%s is %s' % (nm, e))
            atf = ms.get('at', [None])[0]
            at_eval = None
            if atf is not None:
                # at(i) evaluated (E-TABLE) for every component index: it must yield the i-th component
                from peval import PEval as _PEa, Vec as _Vec, Ord as _Ord, Undecided as _PUa, Fault as _PFa
                rec_ = w.record_of(atf)
                order_ = [c['name'] for c in sorted([c for c in walk(rec_) if c.get('kind') == 'FieldDecl' and c.get('name') in comps], key=lambda c: c.get('_off', 0))]
                try:
                    got_ = []
                    for i_ in range(n):
                        r_ = _PEa([w]).call_with(atf, [i_], this=_Vec('this', list(order_)))
                        got_.append(order_[r_.idx] if isinstance(r_, _Ord) else repr(r_))
                    at_eval = (got_ == list(comps) and order_ == list(comps), got_)
                except (_PUa, _PFa) as e_:
                    from peval import Thrown as _PTa
                    at_eval = (False, got_ + ['throws %s' % e_.etype if isinstance(e_, _PTa) else 'faults']) if isinstance(e_, (_PTa, _PFa)) else None
            if atf is not None and at_eval is not None:
                ctx.check(at_eval[0], R, lab0 + '|at|array-view', atf, 'at(i) yields component i for i = 0..%d (%s)' % (n - 1, ', '.join(comps)),
                          'at(i) yields %s for i = 0..%d; the components are %s' % (at_eval[1], n - 1, list(comps)))
            elif atf is not None:
                e = strip(ret_expr(atf))
                ok = e.get('kind') == 'ArraySubscriptExpr' and N(e['inner'][1]) == params_of(atf)[0]['name'] and any(x.get('kind') == 'CXXReinterpretCastExpr' for x in walk(e['inner'][0])) and any(x.get('kind') == 'CXXThisExpr' for x in walk(e['inner'][0]))
                rec = w.record_of(atf)
                flds = [c for c in walk(rec) if c.get('kind') == 'FieldDecl' and c.get('name') in comps]
                order = [c['name'] for c in sorted(flds, key=lambda c: c.get('_off', 0))]
                ctx.check(ok and order == comps, R, lab0 + '|at|array-view', atf, 'at(i) views the object as T[%d] with members declared in the order %s' % (n, comps), 'at(i) or the member order changed (%s)' % order)
        cr = [f for f in w.functions if w.qualname(f).startswith('phosg::Vector3<') and f['name'] == 'cross' and not is_dependent_pattern(f, w)]
        ctx.require(len(cr) >= 2, 'Vector3::cross instantiations not found')
        for f in cr:
            a = ctor_args(ret_expr(f))
            got = [N(x) for x in a] if a else None
            want = ['((other.z * this.y) - (other.y * this.z))', '((other.x * this.z) - (other.z * this.x))', '((other.y * this.x) - (other.x * this.y))']
            ctx.check(got == want, R, 'Vector3<%s>|cross|cyclic' % w.qualname(f).split('<')[1].split('>')[0], f, '(y*oz - z*oy, z*ox - x*oz, x*oy - y*ox)', 'cross product components are %s' % got)

        # Matrix4 element-wise operators
        mms = {}
        for f in w.functions:
            if w.qualname(f).startswith('phosg::Matrix4<long>::') and not is_dependent_pattern(f, w):
                mms.setdefault(f['name'], []).append(f)
        for nm, tok in list(BIN_TOK.items()) + list(CMP_TOK.items()):
            for f in mms.get(nm, []):
                ps = params_of(f)
                if not ps or 'Vector4' in (qtype(ps[0]) or ''):
                    continue
                mat = 'Matrix4' in (qtype(ps[0]) or '')
                if mat and nm in ('operator*', 'operator*='):
                    continue   # the matrix product is judged by R3
                lp = [x for x in walk(body_of(f)) if x.get('kind') == 'ForStmt']
                st = [N(s_) for x in lp for s_ in stmts_of(loop_body(x))]
                o = 'other.v[z]' if mat else 'other'
                if nm in BIN_TOK:
                    rhs = '(' + (' %s ' % tok).join(sorted(['this.v[z]', o])) + ')' if tok in ('+', '*') else '(this.v[z] %s %s)' % (tok, o)
                    want = ['(res.v[z] = %s)' % rhs]
                else:
                    want = ['(this.v[z] %s %s)' % (tok, o)]
                full = len(lp) == 1 and N(for_parts(lp[0])[2]) == '(z < 16)'
                ctx.check(st == want and full, R, 'Matrix4|%s(%s)|elementwise' % (nm, 'matrix' if mat else 'scalar'), f, 'element z = this.v[z] %s other over all 16 elements' % tok, '%s is not element-wise over all 16 entries: %s' % (nm, st))
    # ---------------- R3
    with ctx.section('C20-R6', 'Vector-inl.hh'):
        R = 'C20-R6'
        # a const reference to an element that the function goes on to overwrite is not a captured value
        n_al = 0
        for f in w.functions:
            q = strip_targs(w.qualname(f))
            if not (q.startswith('phosg::Matrix4') or q.startswith('phosg::Vector')) or is_dependent_pattern(f, w) or body_of(f) is None:
                continue
            for vd, wn, rd in aliased_reference_locals(f):
                n_al += 1
                ctx.bad(R, '%s|aliased-reference|%s' % (w.qualname(f), vd.get('name')), vd, '`%s` is a reference to %s, which `%s` overwrites while the reference is still read at line %s: from that point it no longer holds the value it was meant to capture (take a copy)' % (vd.get('name'), src_text(kids(vd)[-1], 40), src_text(wn, 50), rd.get('_line')))
        if not n_al:
            ctx.ok(R, 'no-aliased-reference-locals', 'Vector-inl.hh', 'no const reference local aliases an element written while it is read', nontrivial=False)

        for f in w.functions:
            q = strip_targs(w.qualname(f))
            if not (q.startswith('phosg::Matrix4') or q.startswith('phosg::Vector')) or is_dependent_pattern(f, w) or body_of(f) is None:
                continue
            for p_, c_, wn, verdict in aliased_reference_params(f):
                key = '%s|aliased-reference-parameter|%s' % (w.qualname(f), p_.get('name'))
                if verdict == 'alias':
                    ctx.bad(R, key, c_, 'the helper takes `%s` by const reference and is called with %s, an element of the object it modifies (`%s`) while it still reads the parameter: the factor changes in the middle of the row operation (take it by value)' % (p_.get('name'), src_text(kids(c_)[2 + [x_['id'] for x_ in params_of(enclosing(wn, ('CXXMethodDecl',)) or {'inner': []})].index(p_['id'])] if enclosing(wn, ('CXXMethodDecl',)) is not None else c_, 40), src_text(wn, 50)))
                else:
                    ctx.undecided(R, key, c_, 'a const reference parameter may alias an element the helper writes (indices not comparable)')
    with ctx.section('C20-R6', 'Vector-inl.hh'):
        # a row operation of the inversion covers the whole row of both halves of the augmented matrix:
        # every loop that updates m[x][row] over its own index x runs x = 0 .. 3
        for f in w.functions:
            q = strip_targs(w.qualname(f))
            if not q.startswith('phosg::Matrix4') or f.get('name') != 'invert' or is_dependent_pattern(f, w) or body_of(f) is None:
                continue
            seen_ = set()
            for lp_ in walk(body_of(f)):
                if lp_.get('kind') != 'ForStmt' or lp_.get('_off') in seen_:
                    continue
                init_, cv_, cond_, inc_, lb_ = for_parts(lp_)
                vd_ = next((x for x in walk(init_) if x.get('kind') == 'VarDecl'), None) if init_ else None
                if vd_ is None or not kids(vd_):
                    continue
                upd_ = [x for x in walk(lb_) if x.get('kind') == 'CompoundAssignOperator' and strip(x['inner'][0]).get('kind') == 'ArraySubscriptExpr' and
                        strip(strip(x['inner'][0])['inner'][0]).get('kind') == 'ArraySubscriptExpr' and (ref_decl(strip(strip(x['inner'][0])['inner'][0])['inner'][1]) or {}).get('id') == vd_['id']]
                if not upd_ or any(y.get('kind') == 'ForStmt' for y in walk(lb_) if y is not lp_):
                    continue
                seen_.add(lp_.get('_off'))
                r_ = relation(cond_, True) if cond_ is not None else None
                full = int_value(kids(vd_)[-1]) == 0 and r_ is not None and (ref_decl(r_[0]) or {}).get('id') == vd_['id'] and ((r_[1] == '<' and int_value(r_[2]) == 4) or (r_[1] == '<=' and int_value(r_[2]) == 3))
                ctx.check(full, 'C20-R6', '%s|invert|row-op-covers-row@%s' % (w.qualname(f), lp_.get('_line')), lp_, 'the row operation runs over all four columns',
                          'the row operation `%s` runs over `%s` only: the inverse being accumulated in *this is not zero left of the diagonal, so part of the row is left unmodified and M * inverse(M) is not the identity' % (src_text(upd_[0], 50), src_text(lp_, 40).split('{')[0]))
    with ctx.section('C20-R3', 'Vector-inl.hh'):
        R = 'C20-R3'
        for T in ('long', 'double'):
            cls = 'phosg::Matrix4<%s>' % T
            ms = {}
            for f in w.functions:
                if w.qualname(f).startswith(cls + '::') and not is_dependent_pattern(f, w):
                    ms.setdefault(f['name'], []).append(f)
            mv = [f for f in ms.get('operator*', []) if 'Vector4' in (qtype(params_of(f)[0]) or '')]
            mm = [f for f in ms.get('operator*', []) if 'Matrix4' in (qtype(params_of(f)[0]) or '')]
            ctx.require(len(mv) == 1 and len(mm) == 1, '%s products not found' % cls)
            a = ctor_args(ret_expr(mv[0]))
            okv = a is not None and len(a) == 4
            if okv:
                for i, x in enumerate(a):
                    terms = sorted('(' + ' * '.join(sorted(['other.%s' % c, 'this.m[%d][%d]' % (j, i)])) + ')' for j, c in enumerate(COMP[4]))
                    okv = okv and N(x) == '(' + ' + '.join(terms) + ')'
            ctx.check(okv, R, 'Matrix4<%s>|M*v|index-convention' % T, mv[0], 'row i = sum_j m[j][i] * v_j', 'M*v does not use m[j][i] as the coefficient of v_j in row i')
            acc = [x for x in walk(body_of(mm[0])) if x.get('kind') == 'CompoundAssignOperator' and x.get('opcode') == '+=']
            st = [x for x in walk(body_of(mm[0])) if x.get('kind') == 'BinaryOperator' and x.get('opcode') == '=' and N(x['inner'][0]).startswith('res.m[')]
            okm = len(acc) == 1 and N(acc[0]['inner'][1]) in ('(other.m[x][z] * this.m[z][y])',) and len(st) == 1 and N(st[0]['inner'][0]) == 'res.m[x][y]'
            loops = [lp for lp in walk(body_of(mm[0])) if lp.get('kind') == 'ForStmt']
            okm = okm and len(loops) == 3 and all(N(for_parts(lp)[2]).endswith('< 4)') and int_value(kids(next(v for v in walk(for_parts(lp)[0]) if v.get('kind') == 'VarDecl'))[-1]) == 0 for lp in loops)
            ctx.check(okm, R, 'Matrix4<%s>|M*N|index-convention' % T, mm[0], 'res.m[x][y] = sum_z this.m[z][y] * other.m[x][z] (same convention as M*v, so (AB)v = A(Bv))', 'M*N index pattern changed: %s' % [N(x['inner'][1]) for x in acc])
            # M *= N: the product is formed apart from *this (so that m *= m, where `other` IS *this,
            # reads only original entries), then assigned
            mme = [f for f in ms.get('operator*=', []) if 'Matrix4' in (qtype(params_of(f)[0]) or '')]
            ctx.require(len(mme) == 1, '%s::operator*=(const Matrix4&) not found' % cls)
            fb = body_of(mme[0])
            delegates = [c for c in walk(fb) if c.get('kind') == 'CXXOperatorCallExpr' and call_name(c) == 'operator*' and (callee_decl(c, w) or {}).get('mangledName') == mm[0].get('mangledName')]
            writes = [x for x in walk(fb) if x.get('kind') in ('BinaryOperator', 'CompoundAssignOperator') and x.get('opcode', '').endswith('=') and x.get('opcode') not in ('==', '!=', '<=', '>=') and N(x['inner'][0]).startswith('this.m[')]
            reads_other = [x for x in walk(fb) if x.get('kind') == 'ArraySubscriptExpr' and N(x).startswith('other.m[') and N(x).count('[') == 2]
            hazard = None
            for wr in writes:
                for rd_ in reads_other:
                    if N(rd_) != N(wr['inner'][0]).replace('this.', 'other.'):
                        hazard = (wr, rd_)
            okd = (len(delegates) == 1 and not writes) or (not delegates and hazard is None and bool(writes))
            ctx.check(okd and hazard is None, R, 'Matrix4<%s>|M*=N|no-aliasing-hazard' % T, hazard[0] if hazard else mme[0], 'the product is computed by operator* into a separate matrix and then assigned',
                      'operator*= writes `%s` while `%s` is still to be read: when the argument is the matrix itself (m *= m) later rows are computed from already overwritten entries' % ((N(hazard[0]['inner'][0]), N(hazard[1])) if hazard else ('?', '?')))
            tr = ms.get('transposition', [None])[0]
            if tr is not None:
                st = [N(x) for x in walk(body_of(tr)) if x.get('kind') == 'BinaryOperator' and x.get('opcode') == '=']
                ctx.check(st == ['(res.m[y][x] = this.m[x][y])'], R, 'Matrix4<%s>|transposition' % T, tr, 'res.m[y][x] = m[x][y]', 'transposition is %s' % st)
            inv = ms.get('invert', [None])[0]
            if inv is not None:
                ctx.fn('Matrix4<%s>::invert' % T)
                inner = [lp for lp in walk(body_of(inv)) if lp.get('kind') == 'ForStmt' and any(x.get('kind') == 'CompoundAssignOperator' for x in stmts_of(loop_body(lp)) if True) and
                         all(strip(s).get('kind') == 'CompoundAssignOperator' for s in stmts_of(loop_body(lp)))]
                ctx.need(len(inner) == 2, 'invert: row-operation loops not found (%d)' % len(inner))
                for i, lp in enumerate(inner):
                    init, cv, cond, inc, lbody = for_parts(lp)
                    vd = next(v for v in walk(init) if v.get('kind') == 'VarDecl')
                    full = int_value(kids(vd)[-1]) == 0 and N(cond) == '(%s < 4)' % vd['name'] and N(inc) == '(%s++)' % vd['name']
                    st = [N(s) for s in stmts_of(lbody)]
                    paired = len(st) == 2 and st[0].replace('left.', 'this.') == st[1] and st[0] != st[1]
                    ctx.check(full and paired, R, 'Matrix4<%s>|invert|row-op#%d' % (T, i), lp, 'the row operation is applied to both matrices over all four columns',
                              'a row operation in invert() %s: %s' % ('does not cover all four columns (the accumulating inverse is not zero left of the pivot)' if not full else 'is not applied identically to both matrices', st))
                piv = [x for x in walk(body_of(inv)) if x.get('kind') == 'IfStmt' and 'row_divisor' in N(if_parts(x)[0]) and any(t.get('kind') == 'CXXThrowExpr' for t in walk(if_parts(x)[1]))]
                ctx.check(len(piv) == 1, R, 'Matrix4<%s>|invert|zero-pivot' % T, inv, 'a zero pivot throws', 'zero-pivot handling changed')
                for pv_ in piv:
                    # only a zero (or, with a tolerance, a near-zero magnitude) pivot may be refused: a one-sided
                    # comparison refuses every pivot of one sign
                    for n_, pol_ in atoms([Fact(if_parts(pv_)[0], True, pv_)]):
                        r_ = relation(n_, pol_)
                        if not r_:
                            continue
                        sides = [strip(r_[0]), strip(r_[2])]
                        def _abs(e_):
                            return e_.get('kind') == 'CallExpr' and call_name(e_) in ('fabs', 'abs', 'fabsl', 'fabsf')
                        onesided = r_[1] in ('<', '<=', '>', '>=') and any('row_divisor' in N(s_) for s_ in sides) and not any(_abs(x_) for s_ in sides for x_ in walk(s_))
                        ctx.check(not onesided, R, 'Matrix4<%s>|invert|pivot-test-two-sided' % T, n_, 'the pivot is refused only for zero / small magnitude',
                                  'the pivot test `%s` is one-sided: every pivot of that sign is refused, so invertible (e.g. diagonally dominant with a negative diagonal entry) matrices throw' % src_text(n_, 60))

    # ---------------- R4
    with ctx.section('C20-R4', 'Vector-inl.hh'):
        R = 'C20-R4'
        ri = ur.func('phosg::random_int')[0]
        ctx.fn('random_int')
        rng = next((v for v in walk(body_of(ri)) if v.get('kind') == 'VarDecl' and v.get('name') == 'range'), None)
        ctx.check(rng is not None and N(kids(rng)[-1]) in ('(1 + (high - low))', '((high - low) + 1)'), R, 'random_int|range', rng or ri, 'range = high - low + 1', 'range is %s' % (N(kids(rng)[-1]) if rng else None))
        rets = [r for r in walk(body_of(ri)) if r.get('kind') == 'ReturnStmt']
        if len(rets) == 1:
            # single-exit form: the draw is held in a local and reduced once
            e1 = strip(kids(rets[0])[0])
            modp = [x for x in walk(e1) if x.get('kind') == 'BinaryOperator' and x.get('opcode') == '%']
            held = ref_decl(strip(modp[0]['inner'][0])) if modp else None
            if held is None or held.get('kind') != 'VarDecl':
                ctx.undecided(R, 'random_int|single-exit', rets[0], 'the single return is not low + (held draw %% range)')
            else:
                hv = next((v for v in walk(body_of(ri)) if v.get('kind') == 'VarDecl' and v.get('id') == held['id']), None)
                hi_ = int_type_info(dtype(hv) or '') if hv is not None else None
                ctx.check(hi_ is not None and not hi_[1] and hi_[0] == 64, R, 'random_int|held-draw-unsigned', hv or rets[0], 'the draw is held as an unsigned 64-bit value before the reduction',
                          'the random draw is held in `%s %s` before `%% range`: %s' % (dtype(hv) if hv is not None else '?', held.get('name'), 'a 64-bit draw with the top bit set becomes negative, the remainder is negative and the result falls below low' if hi_ and hi_[1] else 'it is narrower than the widest range class'))
                asg_ = [x for x in walk(body_of(ri)) if x.get('kind') == 'BinaryOperator' and x.get('opcode') == '=' and (ref_decl(x['inner'][0]) or {}).get('id') == held['id']]
                for i, a_ in enumerate(asg_):
                    call = next((c for c in walk(a_['inner'][1]) if c.get('kind') == 'CallExpr'), None)
                    ui = int_type_info(dtype(call)) if call is not None else None
                    lim = None
                    for n_, pol in atoms(path_facts(a_)):
                        rr = relation(n_, pol)
                        if rr and N(rr[0]) == 'range' and rr[1] == '<=' and int_value(rr[2]) is not None:
                            lim = min(lim, int_value(rr[2])) if lim is not None else int_value(rr[2])
                    need_bits = 64 if lim is None else max(8, (lim).bit_length())
                    ctx.check(ui is not None and not ui[1] and ui[0] >= need_bits, R, 'random_int|draw#%d' % i, a_, 'unsigned draw wide enough for its range class', 'the draw for ranges up to %s is %s' % (lim if lim is not None else '2^63', dtype(call) if call is not None else None))
            rets = []
        else:
            ctx.need(len(rets) >= 4, 'random_int: returns not found')
        for i, r in enumerate(rets):
            e = strip(kids(r)[0])
            ok = False
            why = 'return value is %s' % N(e)
            # low + (U % range)
            if e.get('kind') == 'BinaryOperator' and e.get('opcode') == '+':
                parts = [strip(x) for x in e['inner']]
                lowp = [p for p in parts if (ref_decl(p) or {}).get('name') == 'low']
                modp = [p for p in parts if p.get('kind') == 'BinaryOperator' and p.get('opcode') == '%']
                if lowp and modp:
                    m = modp[0]
                    uexp = strip(m['inner'][0], casts=False)
                    call = next((c for c in walk(m['inner'][0]) if c.get('kind') == 'CallExpr'), None)
                    ut = dtype(call) if call is not None else None
                    ui = int_type_info(ut) if ut else None
                    is_range = (ref_decl(m['inner'][1]) or {}).get('name') == 'range'
                    # class bound from the facts
                    lim = None
                    for n_, pol in atoms(path_facts(r)):
                        rr = relation(n_, pol)
                        if rr and N(rr[0]) == 'range' and rr[1] == '<=' and int_value(rr[2]) is not None:
                            lim = min(lim, int_value(rr[2])) if lim is not None else int_value(rr[2])
                    need_bits = 64 if lim is None else max(8, (lim).bit_length())
                    ok = is_range and ui is not None and not ui[1] and ui[0] >= need_bits
                    why = 'random source %s (%s bits%s) for a range of up to %s' % (ut, ui[0] if ui else '?', ', signed' if ui and ui[1] else '', lim if lim is not None else '2^63')
            ctx.check(ok, R, 'random_int|return#%d' % i, r, 'low + (unsigned random %% range)', 'random_int can return a value outside [low, high]: %s' % why)
    # ---------------- R5 random_data: one destination cursor, advanced by what was copied
    with ctx.section('C20-R5', 'Vector-inl.hh'):
        R = 'C20-R5'
        rdf = next((f for f in ur.func('phosg::random_data') if len(params_of(f)) == 2), None)
        ctx.require(rdf is not None, 'random_data(void*, size_t) not found')
        ctx.fn('random_data')
        rb = body_of(rdf)

        def root_var(e):
            e = strip(e)
            while e is not None and e.get('kind') in ('CStyleCastExpr', 'CXXReinterpretCastExpr', 'CXXStaticCastExpr', 'ImplicitCastExpr', 'ParenExpr', 'CXXFunctionalCastExpr') and kids(e):
                e = strip(kids(e)[0])
            return ref_decl(e) if e is not None and e.get('kind') == 'DeclRefExpr' else None
        copies = [c for c in walk(rb) if c.get('kind') == 'CallExpr' and call_name(c) in ('memcpy', 'memmove')]
        ctx.need(len(copies) >= 1, 'random_data: no memcpy found')
        dsts = [root_var(call_args(c)[0]) for c in copies]
        advs = []
        for x in walk(rb):
            if x.get('kind') in ('BinaryOperator', 'CompoundAssignOperator') and x.get('opcode') in ('=', '+=') and '*' in (dtype(x['inner'][0]) or '') and ref_decl(x['inner'][0]):
                advs.append(x)
        loops = [x for x in walk(rb) if x.get('kind') in ('WhileStmt', 'ForStmt', 'DoStmt')]
        adv_vars = {ref_decl(a['inner'][0])['id'] for a in advs if any(a in list(walk(lp)) for lp in loops)}
        okc = all(d is not None for d in dsts) and len({d['id'] for d in dsts if d}) == 1 and ({d['id'] for d in dsts if d} == adv_vars or not loops)
        ctx.check(okc, R, 'random_data|single-destination-cursor', copies[-1], 'every copy writes through the cursor that the refill loop advances',
                  'copies write through %s while the loop advances %s: after a refill the remaining bytes land at the wrong place and part of the request is never written' % (sorted({(d or {}).get('name', '?') for d in dsts}), sorted({(unit_name(a)) for a in advs})))
        if loops and loops[0].get('kind') != 'WhileStmt':
            ctx.undecided(R, 'random_data|refill-accounting', loops[0], 'the refill loop is not a `while (pool < request)` loop (its exit is a break inside the body): the accounting order is not decided by this rule')
        elif loops:
            lp = loops[0]
            lcopy = [c for c in copies if any(c is y for y in walk(lp))]
            okl = len(lcopy) == 1
            why = 'expected one copy in the refill loop'
            if okl:
                n_ = nf(call_args(lcopy[0])[2])
                srcn = nf(call_args(lcopy[0])[1])
                from guard import subst_locals
                cnt_ids = {params_of(rdf)[1]['id']} | {v_['id'] for v_ in walk(rb) if v_.get('kind') == 'VarDecl' and kids(v_) and nf(kids(v_)[-1]) == params_of(rdf)[1]['name']}
                cnt_names = {params_of(rdf)[1]['name']} | {v_['name'] for v_ in walk(rb) if v_.get('kind') == 'VarDecl' and kids(v_) and nf(kids(v_)[-1]) == params_of(rdf)[1]['name']}
                n_ = subst_locals(n_, lcopy[0])
                subs = [subst_locals(nf(x['inner'][1]), x) for x in walk(lp) if x.get('kind') == 'CompoundAssignOperator' and x.get('opcode') == '-=' and (ref_decl(x['inner'][0]) or {}).get('id') in cnt_ids]
                adva = []
                for a in advs:
                    if any(a is y for y in walk(lp)):
                        if a.get('opcode') == '+=':
                            adva.append(subst_locals(nf(a['inner'][1]), a))
                        else:
                            e = strip(a['inner'][1])
                            while e.get('kind') in ('CStyleCastExpr', 'CXXReinterpretCastExpr', 'CXXStaticCastExpr', 'ParenExpr') and kids(e):
                                e = strip(kids(e)[0])
                            adva.append(nf(e['inner'][1]) if e.get('kind') == 'BinaryOperator' and e.get('opcode') == '+' else '?')
                refill = [x for x in walk(lp) if x.get('kind') == 'CXXOperatorCallExpr' and call_name(x) == 'operator=' and nf(kids(x)[1]) == srcn.replace('.data()', '')]
                def _before_refill(y, amount_expr):
                    # the statement precedes the refill, or its amount is a local captured before the refill
                    if y.get('_off', 0) < refill[0].get('_off', 0):
                        return True
                    rd_ = ref_decl(amount_expr) if amount_expr is not None else None
                    vd_ = next((v_ for v_ in walk(lp) if v_.get('kind') == 'VarDecl' and rd_ is not None and v_.get('id') == rd_.get('id')), None)
                    never_written = vd_ is not None and not any(x_.get('kind') in ('BinaryOperator', 'CompoundAssignOperator', 'UnaryOperator') and x_.get('opcode') in tuple(ASSIGN_OPS) + ('++', '--') and kids(x_) and (ref_decl(x_['inner'][0]) or {}).get('id') == vd_.get('id') for x_ in walk(rb))
                    return vd_ is not None and vd_.get('_off', 0) < refill[0].get('_off', 0) and ('const' in (qtype(vd_) or '') or never_written)
                acct = [(lcopy[0], call_args(lcopy[0])[2])] + [(a, a['inner'][1]) for a in advs if any(a is z for z in walk(lp)) and a.get('opcode') == '+='] + \
                    [(x, x['inner'][1]) for x in walk(lp) if x.get('kind') == 'CompoundAssignOperator' and x.get('opcode') == '-=' and (ref_decl(x['inner'][0]) or {}).get('id') in cnt_ids]
                order = bool(refill) and all(_before_refill(y, e_) for y, e_ in acct) and all(y.get('_off', 0) < refill[0].get('_off', 0) for y in [a for a in advs if any(a is z for z in walk(lp)) and a.get('opcode') != '+='])
                okl = subs == [n_] and adva == [n_] and order and nf(while_parts(lp)[0]) in {'(%s < %s)' % (n_, c_) for c_ in cnt_names} | {'(%s > %s)' % (c_, n_) for c_ in cnt_names}
                why = 'loop copies %s bytes, subtracts %s, advances by %s, refill-after-accounting=%s, condition %s' % (n_, subs, adva, order, nf(while_parts(lp)[0]))
            ctx.check(okl, R, 'random_data|refill-accounting', lp, 'each turn copies the whole pool, subtracts and advances by the same amount, then refills', 'the refill loop accounting is inconsistent: ' + why)
        tail = [c for c in copies if not any(c is y for lp in loops for y in walk(lp))]
        okt = len(tail) == 1
        why = 'expected one copy after the loop'
        if okt:
            a = call_args(tail[0])
            rs = [c for c in walk(rb) if c.get('kind') == 'CXXMemberCallExpr' and call_name(c) == 'resize' and c.get('_off', 0) > tail[0].get('_off', 0)]
            from guard import subst_locals as _sl
            cnt_names2 = {params_of(rdf)[1]['name']} | {v_['name'] for v_ in walk(rb) if v_.get('kind') == 'VarDecl' and kids(v_) and nf(kids(v_)[-1]) == params_of(rdf)[1]['name']}
            okt = False
            for cn_ in cnt_names2:
                srcs_ = {renorm(x_) for x_ in ('(buffer.data() + buffer.size() + -%s)' % cn_, '((buffer.data() + buffer.size()) - %s)' % cn_, '(buffer.data() + (buffer.size() - %s))' % cn_, '(-%s + buffer.data() + buffer.size())' % cn_)}
                if nf(a[2]) == cn_ and renorm(_sl(nf(a[1]), a[1])) in srcs_ and len(rs) == 1 and renorm(_sl(nf(call_args(rs[0])[0]), rs[0])) == renorm('(buffer.size() - %s)' % cn_):
                    okt = True
                # &buffer[K] with K = buffer.size() - n is the same address
                s1 = strip(a[1])
                while s1 is not None and s1.get('kind') in ('ImplicitCastExpr', 'ParenExpr', 'CStyleCastExpr', 'CXXReinterpretCastExpr', 'CXXStaticCastExpr') and kids(s1):
                    s1 = strip(kids(s1)[0])
                if not okt and s1 is not None and s1.get('kind') == 'UnaryOperator' and s1.get('opcode') == '&':
                    e1 = strip(kids(s1)[0])
                    if e1.get('kind') == 'CXXOperatorCallExpr' and call_name(e1) == 'operator[]' and canon(kids(e1)[1]) == 'buffer':
                        kx = renorm(_sl(nf(kids(e1)[2]), kids(e1)[2]))
                        if nf(a[2]) == cn_ and kx == renorm('(buffer.size() - %s)' % cn_) and len(rs) == 1 and renorm(_sl(nf(call_args(rs[0])[0]), rs[0])) == renorm('(buffer.size() - %s)' % cn_):
                            okt = True
            why = 'tail copies %s bytes from %s, then resize(%s)' % (nf(a[2]), nf(a[1]), nf(call_args(rs[0])[0]) if rs else '?')
        ctx.check(okt, R, 'random_data|tail', tail[0] if tail else rdf, 'the remaining bytes come from the end of the pool and are removed from it', 'the final copy does not take exactly the remaining bytes from the pool and drop them: ' + why)
    ctx.note('Vector classes instantiated for int64_t (all members) and double (cross, dot, <); Matrix4 for int64_t and double. Not decided: reduce_fraction coprimality, inverse accuracy.')


def unit_name(a):
    return (ref_decl(a['inner'][0]) or {}).get('name', '?')
