"""C08 - split / join / trim / replace laws (decided part: positional delimiter,
trailing-piece admission and sibling identity of split, unbounded formatting,
exception types, stateful escape tracking, replace-all progress).  The algebraic
laws themselves are value equalities over all strings and are not decided."""
from ast_ import *
from path import *


def targs(f):
    return [c['type']['qualType'] for c in kids(f) if c.get('kind') == 'TemplateArgument' and 'type' in c]


def check_split_args_quotes(ctx, u, R):
    """split_args closes a quoted section only on the quote character that opened it"""
    sa_ = u.func('phosg::split_args')[0]
    cq = next((v for v in walk(body_of(sa_)) if v.get('kind') == 'VarDecl' and v.get('name') and 'quote' in v.get('name')), None)
    okq = cq is not None and int_type_info(dtype(cq)) is not None and int_type_info(dtype(cq))[0] == 8
    if okq:
        closes = [x for x in walk(body_of(sa_)) if x.get('kind') == 'BinaryOperator' and x.get('opcode') == '=' and (ref_decl(x['inner'][0]) or {}).get('id') == cq['id'] and int_value(x['inner'][1]) == 0]
        from guard import subst_locals
        okq = len(closes) == 1 and any(subst_locals(nf(n_), n_) in ('(%s == s[z])' % cq['name'], '(s[z] == %s)' % cq['name']) and p_ for n_, p_ in atoms(path_facts(closes[0])))
    ctx.check(okq, R, 'split_args|quote-kind-remembered', cq or sa_, 'a quoted section closes only on the same quote character that opened it', 'split_args does not remember which quote character opened the section: the other quote character closes it')
    # the scanner never looks behind, and a token is started in exactly one situation: a character
    # that is not inter-argument space arrives while the scanner is between arguments
    body = body_of(sa_)
    loops = [x for x in walk(body) if x.get('kind') == 'ForStmt']
    idx = None
    for lp_ in loops:
        ini_ = for_parts(lp_)[0]
        if ini_ is not None and ini_.get('kind'):
            idx = next((v for v in walk(ini_) if v is not None and v.get('kind') == 'VarDecl'), None)
            if idx is not None:
                break
    back = []
    if idx is not None:
        for x in walk(body):
            if x.get('kind') in ('ArraySubscriptExpr', 'CXXOperatorCallExpr') and (x.get('kind') == 'ArraySubscriptExpr' or call_name(x) == 'operator[]'):
                ie = kids(x)[-1]
                s0 = strip(ie)
                if s0.get('kind') == 'BinaryOperator' and s0.get('opcode') == '-' and (ref_decl(s0['inner'][0]) or {}).get('id') == idx['id']:
                    back.append(x)
    ctx.check(not back, R, 'split_args|no-look-behind', back[0] if back else sa_, 'no test of an earlier character', 'split_args looks at an earlier character (%s): whether it was escaped or quoted is not known there, so an escaped quote / an empty quoted pair inside a word is misread' % (src_text(back[0], 40) if back else ''))
    starts = [c for c in walk(body) if c.get('kind') == 'CXXMemberCallExpr' and call_name(c) in ('emplace_back', 'push_back') and canon(member_call_object(c)) == 'ret']
    okst = len(starts) == 1
    why = '%d token-start sites' % len(starts)
    if okst:
        fs_ = [(nf(n_), p_) for n_, p_ in atoms(path_facts(starts[0]))]
        bools = {v.get('name'): v for v in walk(body) if v.get('kind') == 'VarDecl' and dtype(v) == 'bool'}
        # "between arguments" state variable true, and a blank test (isblank/isspace on the character) false
        between = [nm for nm, p_ in fs_ if p_ and nm in bools and not any(c.get('kind') == 'CallExpr' and call_name(c) in ('isblank', 'isspace') for c in walk(bools[nm]))]
        notspace = [nm for nm, p_ in fs_ if not p_ and ('isblank(' in nm or 'isspace(' in nm or (nm in bools and any(c.get('kind') == 'CallExpr' and call_name(c) in ('isblank', 'isspace') for c in walk(bools[nm]))))]
        okst = bool(between) and bool(notspace)
        why = 'the token start is guarded by %s' % fs_
    ctx.check(okst, R, 'split_args|single-token-start', starts[0] if starts else sa_, 'a token starts only when a non-space character arrives between arguments',
              'split_args starts tokens elsewhere than on the first non-space character after inter-argument space (%s): phantom or split arguments' % why)



def split_context_transitions(ctx, u, sc, R):
    """One turn of split_context's scanning loop is evaluated (E-TABLE) for every combination of
    (stack top class, escaped flag, character class, max_splits state) and compared with the stateful
    scheme: close on the unescaped matching closer; inside quotes a backslash escapes the next
    character; brackets and quotes open outside quotes; a top-level delimiter splits.  The loop's
    variables are found by type and role, not by name.  Returns False when the loop could not be set up."""
    from peval import PEval, Str as PStr, VecL, Undecided as PUnd, Fault as PFault, _Continue, _Break
    body = body_of(sc)
    ps = params_of(sc)
    if len(ps) != 3:
        return False
    sp, dp, mp = ps
    loops = [x for x in stmts_of(body) if x.get('kind') in ('ForStmt', 'WhileStmt')]
    if len(loops) != 1:
        return False
    lp = loops[0]
    lb = loop_body(lp)
    pre = [v for st in stmts_of(body) if st.get('kind') == 'DeclStmt' and st.get('_off', 0) < lp.get('_off', 0) for v in kids(st) if v.get('kind') == 'VarDecl']
    if lp.get('kind') == 'ForStmt' and for_parts(lp)[0] is not None:
        pre += [v for v in walk(for_parts(lp)[0]) if v.get('kind') == 'VarDecl']
    stacks = [v for v in pre if (dtype(v) or '').replace('const ', '').startswith('std::vector<char') or ('basic_string' in (dtype(v) or ''))]
    rets = [v for v in pre if (dtype(v) or '').startswith('std::vector<std::basic_string') or (dtype(v) or '').startswith('std::vector<std::string')]
    stacks = [v for v in stacks if v not in rets]
    flags = [v for v in pre if dtype(v) == 'bool']
    sizes = [v for v in pre if dtype(v) == 'unsigned long']
    cond = for_parts(lp)[2] if lp.get('kind') == 'ForStmt' else while_parts(lp)[0]
    zs = [v for v in sizes if any((ref_decl(y) or {}).get('id') == v['id'] for y in walk(cond))] if cond is not None else []
    starts = [v for v in sizes if v not in zs]
    if not (len(stacks) == 1 and len(rets) == 1 and len(flags) == 1 and len(zs) == 1 and len(starts) == 1):
        return False
    stack_v, ret_v, esc_v, z_v, start_v = stacks[0], rets[0], flags[0], zs[0], starts[0]
    stack_is_str = 'basic_string' in (dtype(stack_v) or '')
    PE = PEval([u], max_depth=6)
    DELIM = ord(',')
    chars = list(range(256))
    closers = {ord('('): ord(')'), ord('['): ord(']'), ord('{'): ord('}'), ord('<'): ord('>'), ord("'"): ord("'"), ord('"'): ord('"')}
    stacks_ = [b'', b')', b']', b'}', b'>', b"'", b'"', b")'", b'")', b']"']
    n_ok, bad, und = 0, None, None
    for stk in stacks_:
        for esc in (0, 1):
            for c in chars:
                for (mx, have) in (((0, 0), (1, 0), (1, 1), (2, 1)) if c == DELIM else ((0, 0),)):
                    prefix = b'pq'
                    text = prefix + bytes([c]) + b'r'
                    env = {sp['id']: PStr(text), dp['id']: DELIM, mp['id']: mx,
                           stack_v['id']: (PStr(stk) if stack_is_str else VecL(list(stk))), esc_v['id']: esc,
                           ret_v['id']: VecL([PStr(b'x')] * have), z_v['id']: len(prefix), start_v['id']: 0}
                    try:
                        try:
                            PE.run([lb], env)
                        except _Continue:
                            pass
                        except _Break:
                            und = 'the loop body leaves the loop'
                            break
                    except PFault as e_:
                        bad = bad or ((stk, esc, c, mx, have), 'evaluation faults: %s' % e_)
                        continue
                    except PUnd as e_:
                        und = str(e_)
                        break
                    st_after = env[stack_v['id']]
                    got_stack = bytes(st_after.b) if isinstance(st_after, PStr) else bytes(v_ & 0xFF for v_ in st_after.items)
                    got_esc = 1 if env[esc_v['id']] else 0
                    got_split = len(env[ret_v['id']].items) - have
                    # the stateful scheme
                    w_stack, w_esc, w_split = bytearray(stk), esc, 0
                    if not esc and stk and c == stk[-1]:
                        w_stack.pop()
                    else:
                        inq = bool(stk) and stk[-1] in (ord("'"), ord('"'))
                        if esc:
                            w_esc = 0
                        elif inq and c == ord('\\'):
                            w_esc = 1
                        if not inq:
                            if c in closers:
                                w_stack.append(closers[c])
                            elif not stk and c == DELIM and (mx == 0 or have < mx):
                                w_split = 1
                    ok = got_stack == bytes(w_stack) and got_esc == w_esc and got_split == w_split
                    if ok and w_split:
                        piece = env[ret_v['id']].items[-1]
                        ok = isinstance(piece, PStr) and bytes(piece.b) == text[:len(prefix)] and env[start_v['id']] == len(prefix) + 1
                    if ok:
                        n_ok += 1
                    elif bad is None:
                        bad = ((stk, esc, c, mx, have), 'open contexts %r, escaped=%d, character %r (max_splits=%d, %d piece(s) so far): the turn leaves contexts %r, escaped=%d, %d new piece(s); the stateful scheme gives contexts %r, escaped=%d, %d new piece(s)' % (
                            stk.decode('latin1'), esc, chr(c), mx, have, got_stack.decode('latin1'), got_esc, got_split, bytes(w_stack).decode('latin1'), w_esc, w_split))
                if und:
                    break
            if und:
                break
        if und:
            break
    if und:
        ctx.undecided(R, 'split_context|transitions', lp, 'one turn of the scanning loop could not be evaluated (%s)' % und)
        return False
    if bad:
        ctx.bad(R, 'split_context|transitions', lp, 'split_context: ' + bad[1])
    else:
        ctx.ok(R, 'split_context|transitions', lp, '%d (contexts, escaped, character, max_splits) combinations: every turn follows the stateful bracket/quote/escape scheme' % n_ok)
    return True

WSAME = [False]


def run(ctx):
    ctx.rule('C08-R1', 'join: the delimiter is emitted by item position (first-flag / index), never by a predicate over the accumulated output; every item is appended', 6)
    ctx.rule('C08-R2', 'split: loop admits token_start == size() (trailing empty piece), max_splits stops the search not the emission, tail pushed then break; string and wstring versions identical; split_context pushes the tail', 8)
    ctx.rule('C08-R3', 'string_vprintf builds its result from the pointer and length returned by vasprintf (no fixed buffer, no strlen) and frees it; string_printf pairs va_start/va_end', 5)
    ctx.rule('C08-R4', 'split_args / split_context / strip_multiline_comments throw only runtime_error; the other helpers contain no throw; str_replace_all advances past each match', 14)
    ctx.rule('C08-R6', 'split by evaluation (E-TABLE): split(s, \',\', max_splits) folded on every string over {a, delimiter, NUL} up to length 4 (5 in the thorough tier), two long strings and max_splits 0..3 returns python\'s split pieces', 1)
    ctx.rule('C08-R5', 'quote-aware scanners carry the escape state in a variable (set on an unescaped backslash, cleared after one character); no look-behind at the previous character; split_args starts a token at one site only', 5)
    w = ctx.unit(witness_unit('c08.cc'))
    u = ctx.unit(repo_unit('Strings.cc'))

    # ---- R1
    with ctx.section('C08-R1', 'C08'):
        R = 'C08-R1'
        joins = [f for f in w.funcs('phosg::join') if len(params_of(f)) == 2] + [f for f in u.funcs('phosg::join') if len(params_of(f)) == 2]
        ctx.require(len(joins) >= 3, 'join instantiations not found (%d)' % len(joins))
        seen = set()
        for f in joins:
            ta = tuple(targs(f))
            if ta in seen:
                continue
            seen.add(ta)
            lab = 'join<%s>' % ', '.join(t.replace('std::', '') for t in ta)
            ctx.fn(lab)
            check_no_goto(f)
            body = body_of(f)
            delim = params_of(f)[1]
            rets = [x for x in walk(body) if x.get('kind') == 'ReturnStmt']
            acc = None
            for x in walk(rets[-1]):
                if x.get('kind') == 'DeclRefExpr' and (x.get('referencedDecl') or {}).get('kind') == 'VarDecl':
                    acc = x['referencedDecl']
            loops = [x for x in walk(body) if x.get('kind') == 'CXXForRangeStmt']
            if acc is None or len(loops) != 1:
                ctx.bad(R, lab + '|shape', f, 'join is not a single range-for accumulating into a local string')
                continue
            lb = loop_body(loops[0])
            appends = [x for x in walk(lb) if x.get('kind') == 'CXXOperatorCallExpr' and call_name(x) == 'operator+=' and (ref_decl(x['inner'][1]) or {}).get('id') == acc['id']]
            dapp = [a for a in appends if (ref_decl(a['inner'][2]) or {}).get('id') == delim['id'] or any((ref_decl(y) or {}).get('id') == delim['id'] for y in walk(a['inner'][2]))]
            iapp = [a for a in appends if a not in dapp]
            if len(dapp) != 1 or len(iapp) != 1:
                ctx.bad(R, lab + '|shape', f, 'expected one delimiter append and one item append in the loop, found %d / %d' % (len(dapp), len(iapp)))
                continue
            facts = path_facts(dapp[0], stop=loops[0])
            ment = set()
            for ft in facts:
                ment |= mentioned_keys(ft.cond)
            uses_acc = acc['id'] in ment or any(str(k).startswith(acc['id']) for k in ment)
            ctx.check(bool(facts) and not uses_acc, R, lab + '|delimiter-by-position', dapp[0], 'delimiter guarded by %s' % [canon(ft.cond) for ft in facts],
                      'the delimiter is emitted depending on the accumulated output (%s): empty leading items lose their delimiter, so join(split(",a", \',\'), ",") != ",a"' % [canon(ft.cond) for ft in facts] if uses_acc else 'the delimiter append is unconditional or unguarded')
            # the flag: initialised so that the first item gets no delimiter, flipped unconditionally in every iteration
            flag_ok = False
            why = 'position variable not recognised'
            for ft in facts:
                rd = ref_decl(ft.cond) or (ref_decl(strip(ft.cond)['inner'][0]) if strip(ft.cond).get('kind') == 'UnaryOperator' else None)
                if rd and rd.get('kind') == 'VarDecl':
                    vd = w.by_id.get(rd['id']) or u.by_id.get(rd['id'])
                    init = int_value(kids(vd)[-1]) if vd is not None and kids(vd) else None
                    # value of the flag that suppresses the delimiter: facts say cond has polarity ft.pol for emission
                    asg = [x for x in walk(lb) if x.get('kind') == 'BinaryOperator' and x.get('opcode') == '=' and (ref_decl(x['inner'][0]) or {}).get('id') == rd['id']]
                    emits_when = None
                    for n_, pol in atoms([ft]):
                        if (ref_decl(n_) or {}).get('id') == rd['id']:
                            emits_when = 1 if pol else 0
                    if len(asg) == 1 and emits_when is not None and init is not None:
                        top = strip(containing_statement(asg[0])) is asg[0] and containing_statement(asg[0]).get('_p') is lb
                        after = asg[0].get('_off', 0) > dapp[0].get('_off', 0)
                        flag_ok = init == 1 - emits_when and int_value(asg[0]['inner'][1]) == emits_when and top and after
                        why = 'flag %s: init=%s, delimiter emitted when flag=%s, reassigned to %s, unconditional=%s, after the test=%s' % (rd.get('name'), init, emits_when, int_value(asg[0]['inner'][1]), top, after)
                r = relation(ft.cond, ft.pol)
                if r and ref_decl(r[0]) and int_value(r[2]) is not None:
                    flag_ok = True   # index comparison `i > 0` / `i != 0`
                    why = 'index comparison'
            ctx.check(flag_ok, R, lab + '|first-item-flag', dapp[0], why, 'first-item tracking is wrong: %s' % why)
            unc = strip(containing_statement(iapp[0])) is iapp[0] and containing_statement(iapp[0]).get('_p') is lb and iapp[0].get('_off', 0) > dapp[0].get('_off', 0)
            ctx.check(unc, R, lab + '|item-appended', iapp[0], 'every item appended after its delimiter', 'the item append is conditional or precedes the delimiter')
        bc = u.func('phosg::BlockStringWriter::close')[0]
        calls = [c for c in walk(body_of(bc)) if c.get('kind') == 'CallExpr' and call_name(c) == 'join']
        ctx.check(len(calls) == 1 and canon(call_args(calls[0])[0]) == 'this.blocks', R, 'BlockStringWriter::close|uses-join', bc, 'close() = join(blocks, separator)', 'BlockStringWriter::close does not delegate to join')

    # ---- R6 split by evaluation (E-TABLE)
    split_decided = [False]
    with ctx.section('C08-R6', 'C08'):
        import itertools as _it
        from peval import PEval as _PE, Str as _Str, VecL as _VecL, Undecided as _Und, Fault as _Fault, Thrown as _Thr
        sp6 = [f for f in u.funcs('phosg::split') if len(params_of(f)) == 3 and 'wchar_t' not in (qtype(params_of(f)[1]) or '')]
        ctx.need(len(sp6) == 1, 'split(string, char, size_t) not found')
        PE6 = _PE([u], max_depth=8)
        alphabet = (b'a', b',', b'\0')
        maxlen = 5 if ctx.tier == 'thorough' else 4
        n6, bad6, und6 = 0, None, None
        docs = [b''.join(t) for L_ in range(0, maxlen + 1) for t in _it.product(alphabet, repeat=L_)] + [b'a' * 300 + b',' + b'b' * 300, b',' * 40]
        for d_ in docs:
            for ms in (0, 1, 2, 3):
                if und6 or bad6:
                    break
                try:
                    r_ = PE6.call_with(sp6[0], [_Str(d_), ord(','), ms])
                except _Und as e_:
                    if isinstance(e_, _Thr):
                        bad6 = 'split(%r, \',\', %d) throws %s' % (d_, ms, e_.etype)
                    else:
                        und6 = str(e_)
                    continue
                except _Fault as e_:
                    bad6 = 'split(%r, \',\', %d) %s' % (d_, ms, e_)
                    continue
                if not isinstance(r_, _VecL) or not all(isinstance(x_, _Str) for x_ in r_.items):
                    und6 = 'result is not a vector of strings'
                    continue
                got = [bytes(x_.b) for x_ in r_.items]
                want = d_.split(b',', ms if ms else -1)
                n6 += 1
                if got != want:
                    bad6 = 'split(%r, \',\', %d) returns %s; the pieces are %s (joining them with the delimiter must give the string back, pieces = delimiters + 1 capped at max_splits + 1)' % (d_, ms, got, want)
        if und6:
            ctx.undecided('C08-R6', 'split|pieces', sp6[0], 'split could not be folded (%s)' % und6)
        elif bad6:
            ctx.bad('C08-R6', 'split|pieces', sp6[0], bad6)
        else:
            ctx.ok('C08-R6', 'split|pieces', sp6[0], 'split(s, delim, max_splits) returns the reference pieces for every string over {a, delimiter, NUL} up to length %d, two long strings, max_splits 0..3 (%d cases)' % (maxlen, n6))
            split_decided[0] = True
    if split_decided[0]:
        ctx.defer({'C08-R2'}, 'C08-R6', only=lambda k_: k_.startswith('split(string)|') or (k_.startswith('split(wstring)|') and WSAME[0]))
    # ---- R2
    with ctx.section('C08-R2', 'C08'):
        R = 'C08-R2'
        sp = [f for f in u.funcs('phosg::split') if len(params_of(f)) == 3]
        ctx.require(len(sp) == 2, 'split(string) / split(wstring) not found')
        s_str = next(f for f in sp if 'wchar_t' not in (qtype(params_of(f)[1]) or ''))
        s_w = next(f for f in sp if f is not s_str)

        def impl_of(f):
            """the function that holds the loop: f itself, or the shared template f forwards its arguments to"""
            st = stmts_of(body_of(f))
            if len(st) == 1 and st[0].get('kind') == 'ReturnStmt' and kids(st[0]):
                c = next((x for x in walk(st[0]) if x.get('kind') == 'CallExpr'), None)
                if c is not None:
                    d = callee_decl(c, u)
                    g = None
                    if d is not None:
                        g = d if body_of(d) is not None else next((m for m in u.functions if m.get('mangledName') == d.get('mangledName') and body_of(m) is not None), None)
                    if g is not None and [(ref_decl(a_) or {}).get('id') for a_ in call_args(c)] == [p_['id'] for p_ in params_of(f)]:
                        return g
            return f
        s_str, s_w = impl_of(s_str), impl_of(s_w)
        a = [nf(s) for s in stmts_of(body_of(s_str)) if s.get('kind') != 'DeclStmt'] + [nf(kids(v)[-1]) for v in walk(body_of(s_str)) if v.get('kind') == 'VarDecl' and kids(v) and v.get('name')]
        b = [nf(s) for s in stmts_of(body_of(s_w)) if s.get('kind') != 'DeclStmt'] + [nf(kids(v)[-1]) for v in walk(body_of(s_w)) if v.get('kind') == 'VarDecl' and kids(v) and v.get('name')]
        sa = [canon(x) for x in walk(body_of(s_str)) if x.get('kind') in ('BinaryOperator', 'CXXMemberCallExpr', 'ConditionalOperator')]
        sb = [canon(x) for x in walk(body_of(s_w)) if x.get('kind') in ('BinaryOperator', 'CXXMemberCallExpr', 'ConditionalOperator')]
        WSAME[0] = (sa == sb)
        if sa != sb and split_decided[0]:
            # the narrow overload's pieces are decided by evaluation (C08-R6) and the wide one keeps its own structural rules below
            ctx.undecided(R, 'split|string==wstring', s_w, 'split(wstring) and split(string) are written differently (%s); split(string) is decided by evaluation (C08-R6), split(wstring) by the structural rules' % [p for p in zip(sa, sb) if p[0] != p[1]][:1])
        else:
            ctx.check(sa == sb, R, 'split|string==wstring', s_w, 'identical modulo character type', 'split(wstring) differs from split(string): %s' % [p for p in zip(sa, sb) if p[0] != p[1]][:2])
        for f, lab in ((s_str, 'split(string)'), (s_w, 'split(wstring)')):
            ctx.fn(lab)
            check_no_goto(f)
            body = body_of(f)
            loops = [x for x in walk(body) if x.get('kind') == 'WhileStmt']
            ok = False
            if len(loops) == 1:
                cond, lb = while_parts(loops[0])
                r = relation(cond, True)
                ok = r is not None and canon(r[0]) == 'token_start_offset' and r[1] == '<=' and canon(r[2]) == 's.size()'
            ctx.check(ok, R, lab + '|admits-trailing-empty', loops[0] if loops else f, 'loop runs while token_start <= size()', 'the loop stops at token_start == size(): a trailing delimiter no longer yields the final empty piece (piece count = delimiters + 1 breaks)')
            dv = next((v for v in walk(body) if v.get('kind') == 'VarDecl' and v.get('name') == 'delim_offset'), None)
            okd = False
            if dv is not None and kids(dv):
                e = strip(kids(dv)[-1])
                if e.get('kind') == 'ConditionalOperator':
                    c_, a_, b_ = e['inner'][:3]
                    from guard import subst_locals
                    cc = subst_locals(nf(c_), c_).replace('(max_splits != 0)', 'max_splits').replace('(0 != max_splits)', 'max_splits')
                    while cc.startswith('((') and cc.endswith('))') and cc.count('(') == 2:
                        cc = cc[1:-1]
                    okd = cc in ('(max_splits && (max_splits == ret.size()))', '(max_splits && (ret.size() == max_splits))') and 'npos' in canon(a_) and canon(b_) == 's.find(delim, token_start_offset)'
            ctx.check(okd, R, lab + '|max_splits-stops-search', dv or f, 'when max_splits pieces exist the search is skipped and the rest becomes the last piece', 'max_splits does not stop the *search* (it must not drop or truncate the remainder)')
            pushes = [c for c in walk(body) if c.get('kind') == 'CXXMemberCallExpr' and call_name(c) in ('emplace_back', 'push_back')]
            tails = [c for c in pushes if call_args(c) and canon(call_args(c)[0]) == 's.substr(token_start_offset)']
            mids = [c for c in pushes if call_args(c) and canon(call_args(c)[0]) == 's.substr(token_start_offset, (delim_offset - token_start_offset))']
            okt = len(tails) == 1 and len(mids) == 1
            if okt:
                nxt = [s for s in preceding_statements(tails[0])]
                blk = enclosing(tails[0], ('CompoundStmt',))
                sts = list(kids(blk))
                okt = sts and (sts[-1].get('kind') == 'BreakStmt' or (sts[-1].get('kind') == 'ReturnStmt' and any((y_.get('referencedDecl') or {}).get('name') == 'ret' for y_ in walk(sts[-1]) if y_.get('kind') == 'DeclRefExpr'))) and any(relation(n_, p_) and 'npos' in canon(relation(n_, p_)[2]) and relation(n_, p_)[1] == '==' for n_, p_ in atoms(path_facts(tails[0])))
                adv = [x for x in walk(enclosing(mids[0], ('CompoundStmt',))) if x.get('kind') == 'BinaryOperator' and x.get('opcode') == '=' and canon(x['inner'][0]) == 'token_start_offset']
                okt = okt and len(adv) == 1 and nf(adv[0]['inner'][1]) == '(1 + delim_offset)'
            ctx.check(okt, R, lab + '|pieces', f, 'no delimiter found: push the rest and stop; found: push [start, delim) and continue at delim + 1', 'piece emission does not follow push-rest-and-break / push-[start,delim)-and-advance-by-one')
        sc = u.func('phosg::split_context')[0]
        ctx.fn('split_context')
        check_no_goto(sc)
        loops = [x for x in walk(body_of(sc)) if x.get('kind') == 'ForStmt']
        after = [s for s in stmts_of(body_of(sc)) if loops and s.get('_off', 0) > loops[0].get('_off', 0)]
        tail = [c for s in after for c in walk(s) if c.get('kind') == 'CXXMemberCallExpr' and call_name(c) in ('push_back', 'emplace_back') and canon(call_args(c)[0]) == 's.substr(last_start)']
        okc = len(tail) == 1
        if okc:
            fs = path_facts(tail[0])
            okc = all(nf(ft.cond) in ('(last_start <= z)',) and ft.pol for ft in fs)
        ctx.check(okc, R, 'split_context|tail-pushed', tail[0] if tail else sc, 'the remainder after the last top-level delimiter is always pushed', 'split_context does not always push the final piece')

    # ---- R3
    with ctx.section('C08-R3', 'C08'):
        R = 'C08-R3'
        vp = u.func('phosg::string_vprintf')[0]
        ctx.fn('string_vprintf')
        body = body_of(vp)
        arrays = [v for v in walk(body) if v.get('kind') == 'VarDecl' and '[' in (qtype(v) or '')]
        if not arrays:
            ctx.ok(R, 'string_vprintf|no-fixed-buffer', vp, 'no fixed-size buffer')
        import re as _re
        for arr in arrays:
            # a stack fast path is sound only if its result is used when the formatted length is strictly below the buffer size
            m = _re.search(r'\[(\d+)\]', qtype(arr) or '')
            N = int(m.group(1)) if m else None
            uses = [c for c in walk(body) if c.get('kind') in ('CXXConstructExpr', 'CXXTemporaryObjectExpr') and 'basic_string' in (dtype(c) or '') and kids(c) and (ref_decl(kids(c)[0]) or {}).get('id') == arr['id']]
            fmt_calls = [c for c in walk(body) if c.get('kind') == 'CallExpr' and call_name(c) in ('vsnprintf', 'snprintf') and (ref_decl(call_args(c)[0]) or {}).get('id') == arr['id']]
            good = N is not None and len(fmt_calls) == 1 and bool(uses)
            why = 'fixed buffer %s is not used as a guarded vsnprintf fast path' % arr.get('name')
            if good:
                cap = int_value(call_args(fmt_calls[0])[1])
                lenv = enclosing(fmt_calls[0], ('VarDecl',))
                good = cap is not None and cap <= N and lenv is not None
                why = 'vsnprintf capacity %s exceeds the buffer (%s) or its result is not kept' % (cap, N)
                for c in uses if good else []:
                    rels = [(nf(r_[0]), r_[1], nf(r_[2])) for r_ in [relation(n_, p_) for n_, p_ in atoms(path_facts(c))] if r_]
                    nm = lenv.get('name')
                    fits = any((a_ == nm and ((op == '<' and b_ == str(N)) or (op == '<=' and b_ == str(N - 1)))) or (b_ == nm and ((op == '>' and a_ == str(N)) or (op == '>=' and a_ == str(N - 1)))) for a_, op, b_ in rels)
                    nonneg = any((a_ == nm and op in ('>=',) and b_ == '0') or (a_ == nm and op == '>' and b_ == '-1') or (b_ == nm and op == '<=' and a_ == '0') for a_, op, b_ in rels)
                    if not (fits and nonneg):
                        good = False
                        why = 'the stack-buffer result is used when the formatted length may be >= %d (facts: %s): a result of exactly %d bytes loses its last byte' % (N, rels, N)
            ctx.check(good, R, 'string_vprintf|fixed-buffer-guarded|' + str(arr.get('name')), arr, 'stack fast path used only when 0 <= length < %s' % N, why)
        bounded = [c for c in walk(body) if c.get('kind') == 'CallExpr' and call_name(c) in ('vsprintf', 'sprintf', 'strlen')]
        ctx.check(not bounded, R, 'string_vprintf|no-unbounded-or-strlen', bounded[0] if bounded else vp, 'no sprintf/strlen', 'string_vprintf calls %s' % [call_name(c) for c in bounded])
        va = [c for c in walk(body) if c.get('kind') == 'CallExpr' and call_name(c) == 'vasprintf']
        okv = len(va) == 1
        why = 'vasprintf not called exactly once'
        if okv:
            lenv = enclosing(va[0], ('VarDecl',))
            a0 = strip(call_args(va[0])[0])
            resv = ref_decl(a0['inner'][0]) if a0.get('kind') == 'UnaryOperator' and a0.get('opcode') == '&' else None
            ctors = [c for c in walk(body) if c.get('kind') == 'CXXConstructExpr' and 'basic_string' in (dtype(c) or '') and len(kids(c)) >= 2]
            ok_ct = [c for c in ctors if resv and lenv is not None and (ref_decl(kids(c)[0]) or {}).get('id') == resv.get('id') and (ref_decl(kids(c)[1]) or {}).get('id') == lenv.get('id')]
            frees = [c for c in walk(body) if c.get('kind') == 'CallExpr' and call_name(c) == 'free' and resv and (ref_decl(call_args(c)[0]) or {}).get('id') == resv.get('id')]
            okv = bool(ok_ct) and len(frees) == 1 and frees[0].get('_off', 0) > ok_ct[0].get('_off', 0)
            why = 'result is not std::string(result, length) from vasprintf followed by free(result)'
        ctx.check(okv, R, 'string_vprintf|pointer+length', va[0] if va else vp, 'string(result, length) then free(result)', why)
        nullg = [t for t in walk(body) if t.get('kind') == 'CXXThrowExpr']
        ctx.check(len(nullg) == 1 and 'bad_alloc' in (dtype(kids(nullg[0])[0]) or ''), R, 'string_vprintf|null-result', vp, 'null result -> bad_alloc', 'the vasprintf failure path changed')
        spf = u.func('phosg::string_printf')[0]
        names = [call_name(c) for c in walk(body_of(spf)) if c.get('kind') == 'CallExpr']
        vs = [x for x in walk(body_of(spf)) if x.get('kind') in ('VAArgExpr',)]
        seq = [n_ for n_ in names if n_ in ('__builtin_va_start', '__builtin_va_end', 'string_vprintf')]
        ctx.check(seq == ['__builtin_va_start', 'string_vprintf', '__builtin_va_end'], R, 'string_printf|va-pairing', spf, 'va_start; string_vprintf; va_end', 'string_printf call sequence is %s' % seq)

        # a va_list may be consumed once per activation: a second formatter call needs its own va_copy
        nva = 0
        for f in u.functions:
            if body_of(f) is None or f.get('name') not in ('string_vprintf', 'string_printf'):
                continue   # scope: the narrow-string formatter the property names (wstring_vprintf / the colour escapes are not part of C08)
            cons = va_list_consumptions(f)
            for vid, sites in sorted(cons.items()):
                nva += 1
                clash = None
                for i, a in enumerate(sites):
                    for b in sites[i:]:
                        if may_follow(a, b):
                            clash = (a, b)
                            break
                    if clash:
                        break
                nmv = (u.by_id.get(vid) or {}).get('name', '?')
                ctx.check(clash is None, R, '%s|va_list-consumed-once|%s' % (f.get('name'), nmv), clash[1] if clash else f, '%d use(s) of the va_list, at most one per path' % len(sites),
                          '`%s` is consumed by `%s` and may then be consumed again by `%s` without a va_copy: the second formatter reads indeterminate arguments' % (nmv, src_text(clash[0], 50) if clash else '', src_text(clash[1], 50) if clash else ''))
        ctx.require(nva >= 2, 'va_list consumers string_vprintf / string_printf not found')

    # ---- R4
    with ctx.section('C08-R4', 'C08'):
        R = 'C08-R4'
        thrower = {'split_args': u, 'split_context': u}
        for nm in ('split_args', 'split_context'):
            f = u.func('phosg::' + nm)[0]
            ts = [t for t in walk(body_of(f)) if t.get('kind') == 'CXXThrowExpr']
            ctx.check(ts and all('runtime_error' in (dtype(kids(t)[0]) or '') for t in ts), R, nm + '|throws-runtime_error', f, '%d throw site(s), all runtime_error' % len(ts), '%s throws %s' % (nm, [dtype(kids(t)[0]) for t in ts if kids(t)]))
        smc = w.func('phosg::strip_multiline_comments')[0]
        ts = [t for t in walk(body_of(smc)) if t.get('kind') == 'CXXThrowExpr']
        ctx.check(len(ts) == 1 and 'runtime_error' in (dtype(kids(ts[0])[0]) or ''), R, 'strip_multiline_comments|throws-runtime_error', smc, 'one throw, runtime_error', 'strip_multiline_comments throw sites changed')
        quiet = [('phosg::split', u), ('phosg::starts_with', u), ('phosg::ends_with', u), ('phosg::toupper', u), ('phosg::tolower', u), ('phosg::str_replace_all', u),
                 ('phosg::skip_whitespace', u), ('phosg::skip_non_whitespace', u), ('phosg::skip_word', u), ('phosg::join', w), ('phosg::strip_whitespace', w),
                 ('phosg::strip_trailing_whitespace', w), ('phosg::strip_leading_whitespace', w), ('phosg::strip_trailing_zeroes', w)]
        for q, unit in quiet:
            fs = unit.func(q)
            ts = [t for f in fs for t in walk(body_of(f)) if t.get('kind') == 'CXXThrowExpr']
            ctx.check(not ts, R, q.split('::')[-1] + '|no-throw', ts[0] if ts else fs[0], 'contains no throw', '%s now throws (%s): the helpers are total' % (q, src_text(ts[0], 60) if ts else ''))
        sra = u.func('phosg::str_replace_all')[0]
        # after a match the cursor moves just past it (never by less: an empty advance would loop); with no
        # match it moves to the end or the loop is left.  Names are not assumed: the cursor is the start
        # argument of the find() call, the match position is whatever holds find()'s result.
        from guard import subst_locals as _sl
        finds = [c for c in walk(body_of(sra)) if c.get('kind') == 'CXXMemberCallExpr' and call_name(c) == 'find' and len(call_args(c)) >= 2]
        if len(finds) != 1 or ref_decl(call_args(finds[0])[1]) is None:
            ctx.undecided(R, 'str_replace_all|progress', sra, 'str_replace_all is not built around one s.find(target, cursor, n) call')
        else:
            fc = finds[0]
            cur = ref_decl(call_args(fc)[1])
            hv = enclosing(fc, ('VarDecl',))
            mname = hv.get('name') if hv is not None else None
            tlen = _sl(nf(call_args(fc)[2]), fc) if len(call_args(fc)) > 2 else None
            asgs = [x for x in walk(body_of(sra)) if x.get('kind') == 'BinaryOperator' and x.get('opcode') == '=' and (ref_decl(x['inner'][0]) or {}).get('id') == cur['id']]
            past, other = [], []
            for x in asgs:
                rhs = strip(x['inner'][1])
                ok_ = False
                if rhs.get('kind') == 'BinaryOperator' and rhs.get('opcode') == '+' and mname and tlen:
                    ops_ = [(canon(o_), _sl(nf(o_), x)) for o_ in rhs['inner']]
                    ok_ = any(a_[0] == mname and b_[1] == tlen for a_, b_ in (ops_, ops_[::-1]))
                (past if ok_ else other).append(x)
            end_ok = all(_sl(nf(x['inner'][1]), x) in ('s.size()', 's.length()') for x in other)
            ctx.check(len(past) >= 1 and end_ok and tlen not in (None, '0'), R, 'str_replace_all|progress', sra, 'the cursor moves to the end (or the loop is left) or to match + target length',
                      'the cursor %s of str_replace_all is assigned %s: after a match it must move to (match position + %s)' % (cur.get('name'), [nf(x['inner'][1]) for x in asgs], tlen))
        # starts_with / ends_with compare positions
        for nm, want in (('starts_with', '0'), ('ends_with', '(s.length() - end.length())')):
            f = u.func('phosg::' + nm)[0]
            cs = [c for c in walk(body_of(f)) if c.get('kind') == 'CXXMemberCallExpr' and call_name(c) == 'compare']
            ok = len(cs) == 1 and nf(call_args(cs[0])[0]) == want
            if ok:
                rels = [(nf(r_[0]), r_[1], nf(r_[2])) for r_ in [relation(n_, p_) for n_, p_ in atoms(path_facts(cs[0]))] if r_]
                other = 'start' if nm == 'starts_with' else 'end'
                ok = any((a_ == 's.length()' and op in ('>=',) and b_ == other + '.length()') or (b_ == 's.length()' and op == '<=' and a_ == other + '.length()') for a_, op, b_ in rels)
            ctx.check(ok, R, nm + '|guarded-compare', f, 'compare at %s under s.length() >= affix length' % want, '%s compares at the wrong position or without the length guard' % nm)

    # ---- R5
    with ctx.section('C08-R5', 'C08'):
        R = 'C08-R5'
        decided = split_context_transitions(ctx, u, sc, R)
        if not decided:
            for nm in ('split_context',):
                f = u.func('phosg::' + nm)[0]
                back = [x for x in walk(body_of(f)) if x.get('kind') in ('ArraySubscriptExpr', 'CXXOperatorCallExpr') and 'z - 1' in canon(x) and canon(x).startswith('s[')]
                ctx.check(not back, R, nm + '|no-look-behind', back[0] if back else f, 'no test of the previous character', 'escape detection looks at the previous character (%s): an escaped backslash before a quote is misread as escaping the quote' % (canon(back[0]) if back else ''))
            esc = next((v for v in walk(body_of(sc)) if v.get('kind') == 'VarDecl' and dtype(v) == 'bool' and 'escap' in (v.get('name') or '')), None)
            oke = False
            why = 'no escape-state variable'
            if esc is not None:
                asg = [x for x in walk(body_of(sc)) if x.get('kind') == 'BinaryOperator' and x.get('opcode') == '=' and (ref_decl(x['inner'][0]) or {}).get('id') == esc['id']]
                sets = [x for x in asg if int_value(x['inner'][1]) == 1]
                clears = [x for x in asg if int_value(x['inner'][1]) == 0]
                why = 'state variable %s: %d set / %d clear sites' % (esc['name'], len(sets), len(clears))
                if len(sets) == 1 and len(clears) == 1 and int_value(kids(esc)[-1]) == 0:
                    fs_set = [(nf(n_), p_) for n_, p_ in atoms(path_facts(sets[0]))]
                    fs_clr = [(nf(n_), p_) for n_, p_ in atoms(path_facts(clears[0]))]
                    set_ok = (esc['name'], False) in fs_set and any(n_.startswith('(92 == s[z]') or n_.startswith('(s[z] == 92') for n_, p_ in fs_set if p_) and ('in_quoted_string', True) in fs_set
                    clr_ok = (esc['name'], True) in fs_clr
                    closes = [c for c in walk(body_of(sc)) if c.get('kind') == 'CXXMemberCallExpr' and call_name(c) == 'pop_back']
                    close_ok = len(closes) == 1 and (esc['name'], False) in [(nf(n_), p_) for n_, p_ in atoms(path_facts(closes[0]))]
                    oke = set_ok and clr_ok and close_ok
                    why += '; set under (!escaped, in quotes, backslash)=%s, cleared under escaped=%s, closing bracket only when not escaped=%s' % (set_ok, clr_ok, close_ok)
            ctx.check(oke, R, 'split_context|escape-state', esc or sc, why, 'escape tracking in split_context is not the stateful scheme: ' + why)
        check_split_args_quotes(ctx, u, R)
    ctx.note('Not decided: the algebraic laws as such (piece count, no delimiter inside pieces, trim/replace/case equality with reference definitions).')
