"""Obligation bookkeeping, known findings, evidence files, exit codes."""
import json
import os
import sys
import time

from ast_ import VERIF, REPO, AnalysisBroken, loc_str, src_text

KNOWN_FINDINGS = os.path.join(VERIF, 'known_findings.json')

COMMON_ASSUMPTIONS = [
    'clang 14 and g++ 12 agree on the meaning of the analysed units under -std=gnu++20 on x86-64 Linux (little-endian, LP64); PHOSG_WINDOWS / big-endian branches are not analysed',
    'libstdc++, libc and zlib behave as documented (frozen summary tables in the checker)',
    'memory exhaustion (bad_alloc / length_error from growth) is out of scope',
    'callbacks passed into phosg are opaque',
    'the rules decide the structural clauses listed in DESIGN.md section 5 for this property, not the value-level behaviour marked ND there',
]


class Ob:
    __slots__ = ('rule', 'key', 'ok', 'loc', 'detail', 'nontrivial', 'info')

    def __init__(self, rule, key, ok, loc, detail, nontrivial=True, info=False):
        self.rule, self.key, self.ok, self.loc, self.detail = rule, key, ok, loc, detail
        self.nontrivial = nontrivial
        self.info = info


class Ctx:
    def __init__(self, prop, tier):
        self.prop = prop
        self.tier = tier
        self.undecided_obs = []
        self.obs = []
        self.rules = {}          # rule id -> (description, min_instances)
        self.units = set()
        self.functions = set()
        self.notes = []
        self.extra = {}
        self.t0 = time.time()

    # ---- registration
    def rule(self, rid, desc, min_instances=1):
        # min_instances is the count confirmed by reading today's tree.  The floor that makes a run
        # "analysis broken" is 60% of it: de-duplicating refactors legitimately remove instances
        # (four inline bounds checks replaced by calls of one checked accessor), a vanished anchor
        # removes all of them.
        self.rules[rid] = (desc, max(1, (min_instances * 6) // 10) if min_instances > 1 else min_instances)

    def unit(self, u):
        self.units.add(os.path.basename(u.path))
        return u

    def fn(self, name):
        self.functions.add(name)

    def ok(self, rule, key, node_or_loc, detail='', nontrivial=True):
        self.obs.append(Ob(rule, key, True, _loc(node_or_loc), detail, nontrivial))

    def bad(self, rule, key, node_or_loc, detail=''):
        by = getattr(self, 'deferred', {}).get(rule)
        if by and isinstance(by, tuple):
            # deferral restricted to the instance keys the evaluation really covers
            by = by[0] if by[1](key) else None
        if by:
            # the behaviour this structural rule is about has been decided by evaluation: a mismatch
            # with the pattern is another way of writing it
            self.undecided(rule, key, node_or_loc, 'differs from the structural pattern (%s); behaviour decided by evaluation (%s)' % (detail[:160], by))
            return
        self.obs.append(Ob(rule, key, False, _loc(node_or_loc), detail))

    def defer(self, rules, by, only=None):
        """structural mismatches of `rules` become undecided because the evaluation rule `by` has decided
        the behaviour; `only(key)` restricts this to the instance keys that evaluation covers"""
        if not hasattr(self, 'deferred'):
            self.deferred = {}
        for r in rules:
            self.deferred[r] = (by, only) if only is not None else by

    def check(self, cond, rule, key, node_or_loc, ok_detail='', bad_detail='', nontrivial=True):
        if cond:
            self.ok(rule, key, node_or_loc, ok_detail, nontrivial)
        else:
            self.bad(rule, key, node_or_loc, bad_detail or ok_detail)
        return cond

    def undecided(self, rule, key, node_or_loc, why):
        """the construct is outside what the rule models: neither discharged nor a violation.  The
        run ends as analysis-broken (exit 2) unless some other obligation is definitely violated."""
        self.undecided_obs.append((rule, key, _loc(node_or_loc), why))

    def note(self, s):
        self.notes.append(s)

    def require(self, cond, msg):
        if not cond:
            if getattr(self, 'in_section', 0):
                # inside a rule section the anchored functions have been found already: what is missing
                # is the shape this rule reads
                raise SoftBroken(msg)
            raise AnalysisBroken(msg)

    def need(self, cond, msg):
        """inside `with ctx.section(rule):` - the anchored function exists but is not written in the
        shape this rule reads: the rest of the section is skipped and reported as undecided"""
        if not cond:
            raise SoftBroken(msg)

    def section(self, rule, node=None, also=()):
        return _Section(self, rule, node, also)


class SoftBroken(Exception):
    pass


class _Section:
    def __init__(self, ctx, rule, node, also=()):
        self.ctx, self.rule, self.node, self.also = ctx, rule, node, tuple(also)

    def __enter__(self):
        self.ctx.in_section = getattr(self.ctx, 'in_section', 0) + 1
        return self

    def __exit__(self, et, ev, tb):
        self.ctx.in_section -= 1
        if et is None:
            return False
        soft = issubclass(et, (SoftBroken, AnalysisBroken, StopIteration)) or (issubclass(et, (NameError, UnboundLocalError)) and getattr(self.ctx, 'soft_skipped', False))
        if not soft:
            return False
        self.ctx.soft_skipped = True
        self.ctx.undecided(self.rule, 'structure', self.node or self.rule, 'the anchored code is not written in the shape this rule reads (%s): the remaining obligations of the rule are not decided' % ev)
        for r_ in (self.rule,) + self.also:
            d, m = self.ctx.rules.get(r_, ('', 0))
            have = sum(1 for o in self.ctx.obs if o.rule == r_)
            self.ctx.rules[r_] = (d, min(m, have))
        return True


def _loc(x):
    if isinstance(x, dict):
        return loc_str(x)
    return str(x)


def load_known():
    try:
        with open(KNOWN_FINDINGS) as f:
            return json.load(f).get('findings', [])
    except FileNotFoundError:
        return []


def finish(ctx, broken=None):
    """Write evidence, print verdict lines, return the exit code."""
    prop = ctx.prop
    known = [k for k in load_known() if k.get('property') == prop and k.get('status') == 'known']
    known_keys = {(k['rule'], k['key']): k for k in known}

    # Obligations a rule could not decide (a construct outside what it models): reported, recorded in
    # the evidence, and NOT part of the verdict - the exit code speaks for the obligations that were
    # decided.  (A vanished anchor, an instance count under the floor or a checker crash is different:
    # that is analysis-broken, exit 2.)
    for rule_, key_, loc_, why_ in getattr(ctx, 'undecided_obs', []):
        print('UNDECIDED: %s %s at %s: %s' % (rule_, key_, loc_, why_))
    # minimum-instance discipline: a rule that matched fewer sites than confirmed by hand is broken
    if broken is None:
        counts = {}
        for o in ctx.obs:
            counts[o.rule] = counts.get(o.rule, 0) + 1
        # an instance that was found but could not be decided still counts as found
        und_rules = {}
        for r_, k_, l_, w_ in getattr(ctx, 'undecided_obs', []):
            und_rules[r_] = und_rules.get(r_, 0) + 1
        for r_, n_ in und_rules.items():
            # one undecided entry may stand for several instances of the pattern: do not let the floor fire
            counts[r_] = max(counts.get(r_, 0) + n_, ctx.rules.get(r_, ('', 0))[1])
        for rid, (desc, mn) in ctx.rules.items():
            if counts.get(rid, 0) < mn:
                broken = 'rule %s matched %d instance(s), fewer than the %d confirmed by reading the code (%s)' % (rid, counts.get(rid, 0), mn, desc)
                break

    violations = []
    known_hits = []
    for o in ctx.obs:
        if o.ok:
            continue
        k = known_keys.get((o.rule, o.key))
        if k is not None:
            known_hits.append((o, k))
        else:
            violations.append(o)

    evdir = os.environ.get('VERIF_EVDIR') or (os.path.join(VERIF, 'evidence') if REPO == '/repo' else os.path.join(VERIF, '.work', 'evidence-alt'))
    os.makedirs(os.path.join(evdir, 'replay'), exist_ok=True)
    for o, k in known_hits:
        print('KNOWN-FINDING: property=%s %s [%s %s at %s]' % (prop, k.get('what', o.detail), o.rule, o.key, o.loc))
    replay_paths = []
    # one VIOLATION line per (rule, source location): template instantiations of the same
    # construct are grouped (all of them stay in the evidence file)
    groups = {}
    for o in violations:
        groups.setdefault((o.rule, o.loc), []).append(o)
    for f in os.listdir(os.path.join(evdir, 'replay')):
        if f.startswith(prop + '-'):
            os.unlink(os.path.join(evdir, 'replay', f))
    reported = []
    for (r, l), os_ in groups.items():
        o = os_[0]
        if len(os_) > 1:
            o = Ob(o.rule, o.key, False, o.loc, o.detail + ' [+%d more instance(s) of this construct: %s]' % (len(os_) - 1, ', '.join(x.key for x in os_[1:4])))
        reported.append(o)
    for i, o in enumerate(reported):
        rp = os.path.join(evdir, 'replay', '%s-%d.json' % (prop, i + 1))
        with open(rp, 'w') as f:
            json.dump({'property': prop, 'rule': o.rule, 'rule_text': ctx.rules.get(o.rule, ('', 0))[0], 'instance_key': o.key,
                       'location': o.loc, 'detail': o.detail, 'repo': REPO,
                       'replay': 'python3 sa/check.py %s --replay %s' % (prop, rp)}, f, indent=1)
        replay_paths.append(rp)
        print('violation: %s %s at %s: %s' % (o.rule, o.key, o.loc, o.detail))
        print('VIOLATION property=%s replay=%s' % (prop, rp))

    total = len(ctx.obs)
    discharged = sum(1 for o in ctx.obs if o.ok)
    distinct = len({(o.rule, o.key) for o in ctx.obs if o.nontrivial})
    per_rule = {}
    for o in ctx.obs:
        d = per_rule.setdefault(o.rule, {'instances': 0, 'discharged': 0})
        d['instances'] += 1
        d['discharged'] += 1 if o.ok else 0
    samples = []
    seen_rules = set()
    for o in ctx.obs:
        if o.rule not in seen_rules or not o.ok:
            seen_rules.add(o.rule)
            samples.append({'rule': o.rule, 'instance': o.key, 'at': o.loc, 'verdict': 'discharged' if o.ok else 'VIOLATED', 'detail': o.detail[:400]})
    samples = samples[:60]
    ev = {
        'property_id': prop,
        'tier': ctx.tier,
        'seed': int(os.environ.get('VERIF_SEED', '0') or 0),
        'level': 'other',
        'coverage': {
            'explanation': 'Static analysis of /repo\'s current sources (clang type-checked AST, no execution): each rule below is a structural necessary condition of the property, decided for every path / instantiation of the anchored code; an obligation is one (rule, site) pair. ' + ' '.join(ctx.notes),
            'obligations': total,
            'discharged': discharged,
            'evaluations': max(total, 1),
            'distinct_nontrivial': distinct,
            'rule': 'one obligation per (rule, semantic instance key) found in the current AST; non-trivial = the rule\'s pattern matched a real construct (not a vacuous pass); distinct = distinct (rule, key) pairs',
            'samples': samples or [{'note': 'analysis broken before any obligation was produced'}],
            'rules': {rid: {'text': d, 'min_instances': m, **per_rule.get(rid, {'instances': 0, 'discharged': 0})} for rid, (d, m) in ctx.rules.items()},
            'units_analysed': sorted(ctx.units),
            'functions_analysed': len(ctx.functions),
            'function_names': sorted(ctx.functions)[:200],
            'known_findings': [{'rule': o.rule, 'key': o.key, 'what': k.get('what')} for o, k in known_hits],
            'undecided': [{'rule': r_, 'instance': k_, 'at': l_, 'why': w_[:300]} for r_, k_, l_, w_ in getattr(ctx, 'undecided_obs', [])],
            'checker_cmd': 'python3 sa/check.py %s --tier %s' % (prop, ctx.tier),
            'trusted_base': ['clang 14 front end (parser, Sema, template instantiation, JSON AST dumper)', 'python3 rule implementations under /verif/sa', 'frozen std/libc summaries in sa/exc.py'],
            'exhaustive': False,
            'analysis_broken': broken,
            **ctx.extra,
        },
        'assumptions': COMMON_ASSUMPTIONS,
        'wall_s': round(time.time() - ctx.t0, 3),
        'violations': len(violations),
    }
    with open(os.path.join(evdir, '%s.json' % prop), 'w') as f:
        json.dump(ev, f, indent=1)

    print('%s [%s]: %d obligations, %d discharged, %d violation(s), %d known finding(s), %d undecided; units=%s; %.1fs' % (
        prop, ctx.tier, total, discharged, len(violations), len(known_hits), len(getattr(ctx, 'undecided_obs', [])), ','.join(sorted(ctx.units)), time.time() - ctx.t0))
    for rid, (d, m) in sorted(ctx.rules.items()):
        pr = per_rule.get(rid, {'instances': 0, 'discharged': 0})
        print('  %-8s %3d/%-3d (min %d)  %s' % (rid, pr['discharged'], pr['instances'], m, d[:110]))
    if broken:
        print('ANALYSIS-BROKEN property=%s reason=%s' % (prop, broken))
        # violations already established are definite; the break only means the remaining rules were not evaluated
        return 1 if violations else 2
    return 1 if violations else 0
