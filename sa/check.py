#!/usr/bin/env python3
"""Entry point: python3 sa/check.py <Cxx> [--tier quick|thorough] [--replay file]

exit 0  every rule instance discharged (known findings are printed, not failed)
exit 1  VIOLATION line(s) printed
exit 2  analysis broken and no violation established (anchor vanished / instance count below the frozen minimum / unit does not parse)
"""
import argparse
import importlib
import json
import os
import sys
import traceback

sys.path.insert(0, os.path.dirname(os.path.abspath(__file__)))
sys.setrecursionlimit(20000)

import ast_  # noqa: E402
import report  # noqa: E402


def persistent_state_rule(ctx, pid):
    """Rule <pid>-RS, applied to every property: in the files the property is anchored in, no function
    keeps input-derived data in a static / thread_local local across calls (allow-list in sa/path.py)."""
    import path
    rid = '%s-RS' % pid
    ctx.rule(rid, 'no state derived from one call\'s arguments survives into the next: a static / thread_local function-local in the anchored files is const, reset before use, or on the frozen allow-list (random_data pool and descriptor, get_values_multi empty vector)', 1)
    try:
        props = [json.loads(l) for l in open(os.path.join(ast_.VERIF, 'properties.jsonl')) if l.strip()]
        files = next((p_.get('anchors', {}).get('files', []) for p_ in props if p_.get('id') == pid), [])
    except Exception:
        files = []
    files = {os.path.basename(f_) for f_ in files}
    files |= {f_.replace('.hh', '-inl.hh') for f_ in files if f_.endswith('.hh')}
    n_fn, found = 0, 0
    seen = set()
    for uname in sorted(ctx.units):
        try:
            u = ast_.repo_unit(uname) if not uname.startswith('c') or not uname[1:3].isdigit() else ast_.witness_unit(uname)
        except Exception:
            continue
        for f in u.functions:
            fl = os.path.basename(f.get('_file') or '')
            if ast_.body_of(f) is None or (files and fl not in files) or not (f.get('_file') or '').startswith(ast_.REPO):
                continue
            key = (fl, f.get('_line'), f.get('name'))
            if key in seen:
                continue
            seen.add(key)
            n_fn += 1
            for pv, w in path.input_dependent_persistent_writes(f):
                found += 1
                ctx.bad(rid, '%s|%s' % (f.get('name'), pv.get('name')), pv, '`%s` in %s has %s storage and is filled from the call\'s arguments (`%s`) without being reset first: what one call (also a failing one, or one on another object / alphabet / thread of control) leaves there is used by the next' % (
                    pv.get('name'), f.get('name'), 'thread-local' if pv.get('tls') else 'static', ast_.src_text(w, 60)))
    if not found:
        ctx.ok(rid, 'anchored-files', ','.join(sorted(files)) or pid, '%d function(s) in %s: no input-dependent persistent local' % (n_fn, sorted(files)), nontrivial=False)


def run_property(pid, tier):
    ctx = report.Ctx(pid, tier)
    try:
        mod = importlib.import_module('props.' + pid.lower())
        mod.run(ctx)
        persistent_state_rule(ctx, pid)
        if tier == 'thorough' and not os.environ.get('VERIF_EVDIR'):
            import calibrate
            cal = calibrate.calibrate(pid, ast_.REPO)
            ctx.extra['calibration'] = cal
            print('calibration: %d/%d seeded changes reported; %d benign variants: %d silent (%d of them with undecided obligations), %d analysis-broken (exit 2), %d false alarm; %d skipped (patch no longer applies)' % (
                cal['seeded_reported'], cal['seeded_applicable'], cal['benign_applicable'], cal['benign_silent'], cal.get('benign_silent_with_undecided', 0), cal['benign_undecided'], cal['benign_false_alarm'], len(cal['skipped'])))
            for r in cal['unexpected']:
                print('CALIBRATION-NOTE: %s expected %s, got %s %s' % (r['case'], r['expect'], r['result'], ','.join(r.get('rules', []))))
        return ctx, report.finish(ctx)
    except ast_.AnalysisBroken as e:
        return ctx, report.finish(ctx, broken=str(e))
    except Exception as e:  # a crash of the checker is an analysis failure, never a verdict
        traceback.print_exc()
        return ctx, report.finish(ctx, broken='checker exception: %r' % (e,))


def main():
    import signal
    try:
        signal.signal(signal.SIGPIPE, signal.SIG_DFL)    # `check | head` must not turn into a traceback
    except (AttributeError, ValueError):
        pass
    ap = argparse.ArgumentParser()
    ap.add_argument('property')
    ap.add_argument('--tier', default=os.environ.get('VERIF_TIER', 'quick'), choices=['quick', 'thorough'])
    ap.add_argument('--replay')
    a = ap.parse_args()
    pid = a.property.upper()
    if a.replay:
        with open(a.replay) as f:
            r = json.load(f)
        ctx, code = run_property(pid, a.tier)
        hit = [o for o in ctx.obs if not o.ok and o.rule == r['rule'] and o.key == r['instance_key']]
        if hit:
            print('REPLAY: instance still violated: %s %s at %s: %s' % (hit[0].rule, hit[0].key, hit[0].loc, hit[0].detail))
            sys.exit(1)
        print('REPLAY: instance %s %s no longer violated' % (r['rule'], r['instance_key']))
        sys.exit(0 if code != 2 else 2)
    ctx, code = run_property(pid, a.tier)
    sys.exit(code)


if __name__ == '__main__':
    main()
