#!/usr/bin/env python3
"""Entry point: python3 sa/check.py <Cxx> [--tier quick|thorough] [--replay file]

exit 0  every rule instance discharged (known findings are printed, not failed)
exit 1  VIOLATION line(s) printed
exit 2  analysis broken and no violation established (anchor vanished / instance count below the frozen minimum / unit does not parse)
"""
import argparse
import importlib
import json
import os
import sys
import traceback

sys.path.insert(0, os.path.dirname(os.path.abspath(__file__)))
sys.setrecursionlimit(20000)

import ast_  # noqa: E402
import report  # noqa: E402


def run_property(pid, tier):
    ctx = report.Ctx(pid, tier)
    try:
        mod = importlib.import_module('props.' + pid.lower())
        mod.run(ctx)
        if tier == 'thorough' and not os.environ.get('VERIF_EVDIR'):
            import calibrate
            cal = calibrate.calibrate(pid, ast_.REPO)
            ctx.extra['calibration'] = cal
            print('calibration: %d/%d seeded changes reported; %d benign variants: %d silent (%d of them with undecided obligations), %d analysis-broken (exit 2), %d false alarm; %d skipped (patch no longer applies)' % (
                cal['seeded_reported'], cal['seeded_applicable'], cal['benign_applicable'], cal['benign_silent'], cal.get('benign_silent_with_undecided', 0), cal['benign_undecided'], cal['benign_false_alarm'], len(cal['skipped'])))
            for r in cal['unexpected']:
                print('CALIBRATION-NOTE: %s expected %s, got %s %s' % (r['case'], r['expect'], r['result'], ','.join(r.get('rules', []))))
        return ctx, report.finish(ctx)
    except ast_.AnalysisBroken as e:
        return ctx, report.finish(ctx, broken=str(e))
    except Exception as e:  # a crash of the checker is an analysis failure, never a verdict
        traceback.print_exc()
        return ctx, report.finish(ctx, broken='checker exception: %r' % (e,))


def main():
    import signal
    try:
        signal.signal(signal.SIGPIPE, signal.SIG_DFL)    # `check | head` must not turn into a traceback
    except (AttributeError, ValueError):
        pass
    ap = argparse.ArgumentParser()
    ap.add_argument('property')
    ap.add_argument('--tier', default=os.environ.get('VERIF_TIER', 'quick'), choices=['quick', 'thorough'])
    ap.add_argument('--replay')
    a = ap.parse_args()
    pid = a.property.upper()
    if a.replay:
        with open(a.replay) as f:
            r = json.load(f)
        ctx, code = run_property(pid, a.tier)
        hit = [o for o in ctx.obs if not o.ok and o.rule == r['rule'] and o.key == r['instance_key']]
        if hit:
            print('REPLAY: instance still violated: %s %s at %s: %s' % (hit[0].rule, hit[0].key, hit[0].loc, hit[0].detail))
            sys.exit(1)
        print('REPLAY: instance %s %s no longer violated' % (r['rule'], r['instance_key']))
        sys.exit(0 if code != 2 else 2)
    ctx, code = run_property(pid, a.tier)
    sys.exit(code)


if __name__ == '__main__':
    main()
