"""E-EXC: exception-escape sets.

may_throw(F) = types of `throw` expressions in F + may_throw of resolved callees
+ a frozen table for std members, filtered through enclosing handlers using the
class hierarchy (std table + phosg class bases read from the AST).  `throw;`
re-raises what the handler caught.  Allocation failure (bad_alloc, length_error
from growth) is a declared assumption and excluded; calling a std::function /
callback is opaque.  Path-insensitive may-throw would false-alarm on a few
idioms phosg uses; those are *refiners*: per-call-site exemptions whose premise
is re-checked on every run."""
from ast_ import *
from path import *

STD_BASES = {
    'std::exception': None,
    'std::logic_error': 'std::exception', 'std::runtime_error': 'std::exception',
    'std::invalid_argument': 'std::logic_error', 'std::domain_error': 'std::logic_error', 'std::length_error': 'std::logic_error',
    'std::out_of_range': 'std::logic_error', 'std::future_error': 'std::logic_error',
    'std::range_error': 'std::runtime_error', 'std::overflow_error': 'std::runtime_error', 'std::underflow_error': 'std::runtime_error',
    'std::system_error': 'std::runtime_error', 'std::ios_base::failure': 'std::system_error', 'std::regex_error': 'std::runtime_error',
    'std::bad_alloc': 'std::exception', 'std::bad_array_new_length': 'std::bad_alloc', 'std::bad_cast': 'std::exception', 'std::bad_any_cast': 'std::bad_cast',
    'std::bad_typeid': 'std::exception', 'std::bad_exception': 'std::exception', 'std::bad_function_call': 'std::exception',
    'std::bad_variant_access': 'std::exception', 'std::bad_optional_access': 'std::exception', 'std::bad_weak_ptr': 'std::exception',
}

# (member or free function name) -> exception types, for std callees.  Anything not
# listed is assumed not to throw apart from allocation failure.
STD_MEMBER_THROWS = {
    'at': {'std::out_of_range'},
    'substr': {'std::out_of_range'},
    'stoi': {'std::invalid_argument', 'std::out_of_range'}, 'stol': {'std::invalid_argument', 'std::out_of_range'},
    'stoll': {'std::invalid_argument', 'std::out_of_range'}, 'stoul': {'std::invalid_argument', 'std::out_of_range'},
    'stoull': {'std::invalid_argument', 'std::out_of_range'}, 'stof': {'std::invalid_argument', 'std::out_of_range'},
    'stod': {'std::invalid_argument', 'std::out_of_range'}, 'stold': {'std::invalid_argument', 'std::out_of_range'},
    'value': {'std::bad_optional_access'},
}
# std::string members that take a position and throw out_of_range when it is past the end
STRING_POS_MEMBERS = {'erase', 'insert', 'replace', 'compare', 'copy', 'assign', 'append'}
ALLOC = {'std::bad_alloc', 'std::length_error', 'std::bad_array_new_length'}


def norm_type(t):
    t = (t or '').replace('const ', '').replace('class ', '').replace('struct ', '').replace('&', '').strip()
    return t


class Exc:
    def __init__(self, units, refiners=()):
        self.units = list(units)
        self.refiners = list(refiners)
        self.by_mangled = {}
        self.bases = dict(STD_BASES)
        for u in self.units:
            for f in u.functions:
                mn = f.get('mangledName')
                if mn and mn not in self.by_mangled:
                    self.by_mangled[mn] = (f, u)
            for r in u.records:
                q = u.qualname(r)
                bs = [norm_type(b.get('type', {}).get('qualType')) for b in r.get('bases', [])]
                if bs and q not in self.bases:
                    b = bs[0]
                    if not b.startswith('std::') and ('std::' + b) in STD_BASES:
                        b = 'std::' + b
                    self.bases[q] = b
        self.memo = {}
        self.active = set()
        self.exemptions = []   # (site loc, reason)
        self.unknown = set()

    # ---- hierarchy
    def canonical(self, t):
        t = norm_type(t)
        if t in self.bases:
            return t
        for k in self.bases:
            if k.endswith('::' + t) or k == 'std::' + t or k == 'phosg::' + t:
                return k
        return t

    def derives(self, t, base):
        t, base = self.canonical(t), self.canonical(base)
        seen = 0
        while t is not None and seen < 20:
            if t == base:
                return True
            t = self.bases.get(t)
            seen += 1
        return False

    # ---- resolution
    def resolve(self, call, unit):
        d = callee_decl(call, unit) if call.get('kind') != 'CXXConstructExpr' and call.get('kind') != 'CXXTemporaryObjectExpr' else None
        if d is None:
            return None, None
        if body_of(d) is not None and d.get('_p') is not None:
            return d, unit
        mn = d.get('mangledName')
        if mn and mn in self.by_mangled:
            return self.by_mangled[mn]
        # declaration only in this unit: look it up by id to get the mangled name
        full = unit.by_id.get(d.get('id'))
        if full is not None:
            mn = full.get('mangledName')
            if mn and mn in self.by_mangled:
                return self.by_mangled[mn]
            return full, None
        return d, None

    def std_throws(self, call, d, unit):
        nm = (d or {}).get('name') or ''
        k = call.get('kind')
        recv = None
        if k == 'CXXMemberCallExpr':
            obj = member_call_object(call)
            recv = dtype(obj) if obj is not None else None
        out = set()
        if nm in STD_MEMBER_THROWS:
            if nm in ('at', 'substr', 'value'):
                if k == 'CXXMemberCallExpr' and recv and 'std::' in recv:
                    out |= STD_MEMBER_THROWS[nm]
            else:
                out |= STD_MEMBER_THROWS[nm]
        if nm in STRING_POS_MEMBERS and recv and 'basic_string' in recv and k == 'CXXMemberCallExpr':
            # only the overloads that take a position (size_t first argument) throw
            args = call_args(call)
            if args and (dtype(args[0]) or '') == 'unsigned long' and nm in ('erase', 'insert', 'replace', 'compare', 'copy'):
                # position 0 is valid for every string (pos > size() is the only out_of_range condition)
                if int_value(args[0]) != 0:
                    out.add('std::out_of_range')
        if nm == 'get' and k == 'CallExpr':
            a = call_args(call)
            if a and 'variant' in (dtype(a[0]) or ''):
                out.add('std::bad_variant_access')
        if nm == 'operator()' and k == 'CXXOperatorCallExpr':
            a = call.get('inner', [None, None])
            if len(a) > 1 and 'std::function' in (dtype(a[1]) or ''):
                pass  # opaque callback: excluded by assumption
        return out

    # ---- main
    def may_throw(self, f, unit):
        key = f.get('mangledName') or id(f)
        if key in self.memo:
            return self.memo[key]
        if key in self.active:
            return {}
        self.active.add(key)
        try:
            body = body_of(f)
            res = {}
            if body is not None:
                res = self._node(body, f, unit)
            # constructor initialisers
            for ci in kids(f):
                if ci.get('kind') == 'CXXCtorInitializer':
                    for t, w in self._node(ci, f, unit).items():
                        res.setdefault(t, w)
            ft = f.get('type', {}).get('qualType', '')
            if ft.rstrip().endswith('noexcept'):
                res = {}
        finally:
            self.active.discard(key)
        self.memo[key] = res
        return res

    def _node(self, n, f, unit):
        """exceptions that may escape node n (dict type -> witness string)"""
        k = n.get('kind')
        out = {}
        if k is None:
            return out
        if k == 'LambdaExpr':
            return out   # the body runs when the closure is called
        if k in RECORD_KINDS or k in FUNC_KINDS:
            return out
        if k == 'CXXTryStmt':
            parts = list(kids(n))
            blk, handlers = parts[0], parts[1:]
            inner = self._node(blk, f, unit)
            remaining = dict(inner)
            for h in handlers:
                hk = kids(h)
                htype = norm_type(qtype(hk[0])) if hk and hk[0].get('kind') == 'VarDecl' else '...'
                caught = {}
                for t in list(remaining):
                    if htype == '...' or self.derives(t, htype):
                        caught[t] = remaining.pop(t)
                body = hk[-1] if hk else None
                if body is not None:
                    hb = self._node(body, f, unit)
                    for t, w in hb.items():
                        if t == '<rethrow>':
                            for ct, cw in caught.items():
                                out.setdefault(ct, cw + ' (rethrown at %s)' % loc_str(h))
                        else:
                            out.setdefault(t, w)
            for t, w in remaining.items():
                out.setdefault(t, w)
            return out
        if k == 'CXXThrowExpr':
            if not kids(n):
                out['<rethrow>'] = 'throw; at %s' % loc_str(n)
            else:
                t = self.canonical(dtype(kids(n)[0]))
                out[t] = 'throw %s at %s' % (t, loc_str(n))
                for c in kids(n):
                    for tt, w in self._node(c, f, unit).items():
                        out.setdefault(tt, w)
            return out
        # children first
        for c in kids(n):
            for t, w in self._node(c, f, unit).items():
                out.setdefault(t, w)
        if k in ('CallExpr', 'CXXMemberCallExpr', 'CXXOperatorCallExpr'):
            d, du = self.resolve(n, unit)
            thr = {}
            if d is not None and du is not None:
                for t, w in self.may_throw(d, du).items():
                    thr[t] = '%s called at %s -> %s' % (d.get('name'), loc_str(n), w)
            else:
                for t in self.std_throws(n, d, unit):
                    thr[t] = '%s at %s (std contract)' % ((d or {}).get('name'), loc_str(n))
                if d is not None and d.get('_p') is not None and body_of(d) is None:
                    q = unit.qualname(d)
                    if q.startswith('phosg::'):
                        self.unknown.add(q)
            thr = self._refine(n, d, unit, f, thr)
            for t, w in thr.items():
                out.setdefault(t, w)
        elif k in ('CXXConstructExpr', 'CXXTemporaryObjectExpr'):
            cd = None
            # constructor decl is not referenced by id in the JSON dump; resolve by record + ctor type
            ct = n.get('ctorType', {}).get('qualType')
            rec = norm_type(dtype(n))
            cd = self._find_ctor(rec, ct)
            if cd is not None:
                thr = {}
                for t, w in self.may_throw(cd[0], cd[1]).items():
                    thr[t] = '%s constructor called at %s -> %s' % (rec, loc_str(n), w)
                thr = self._refine(n, cd[0], unit, f, thr)
                for t, w in thr.items():
                    out.setdefault(t, w)
        for t in ALLOC:
            out.pop(t, None)
        return out

    def _find_ctor(self, rec, ctor_type):
        key = ('ctor', rec, ctor_type)
        if key in self.memo:
            return self.memo[key]
        res = None
        for u in self.units:
            for f in u.functions:
                if f.get('kind') == 'CXXConstructorDecl' and f.get('type', {}).get('qualType') == ctor_type:
                    r = u.record_of(f)
                    if r is not None and norm_type(u.qualname(r)) == rec:
                        res = (f, u)
                        break
            if res:
                break
        self.memo[key] = res
        return res

    def _refine(self, call, d, unit, f, thr):
        if not thr:
            return thr
        for rf in self.refiners:
            removed = rf(self, call, d, unit, f, thr)
            if removed:
                for t, reason in removed.items():
                    if t in thr:
                        del thr[t]
                        self.exemptions.append((loc_str(call), t, reason))
        return thr


# --------------------------------------------------------------------------
# refiners (each returns {type: reason} for the types whose premise it verified)

def _obj_key(call):
    if call.get('kind') != 'CXXMemberCallExpr':
        return None
    obj = member_call_object(call)
    return var_key(obj) if obj is not None else 'this'


def _min_len(call, unit):
    """guaranteed minimum length of the std::string the member call is made on: a local
    initialised by string_printf whose format contains a numeric conversion holds >= 1 character"""
    obj = member_call_object(call)
    rd = ref_decl(obj) if obj is not None else None
    vd = unit.by_id.get(rd.get('id')) if rd else None
    if vd is None or vd.get('kind') != 'VarDecl' or not kids(vd):
        return 0
    # never reassigned?  (conservative: any assignment to it anywhere in the unit's functions containing it)
    for c in walk(vd):
        if c.get('kind') == 'CallExpr' and call_name(c) == 'string_printf':
            a = call_args(c)
            lit = next((x for x in walk(a[0]) if x.get('kind') == 'StringLiteral'), None)
            if lit is not None:
                import re as _re
                if _re.search(r'%[-+ 0#]*(\*|\d+)?(\.(\*|\d+))?(hh|h|ll|l|z|j|t|L)?[diuoxXfFeEgG]', lit.get('value', '')):
                    return 1
    return 0


def refine_size_guarded_at(exc, call, d, unit, f, thr):
    """`X.size() == 1 || X.at(1) ...`, `X.size() > k && X.at(k)`: short-circuit
    size guard on the same object, index a constant."""
    if (d or {}).get('name') != 'at' or 'std::out_of_range' not in thr:
        return None
    ok = _obj_key(call)
    args = call_args(call)
    if ok is None or not args:
        return None
    idx = int_value(args[0])
    if idx is None:
        return None
    for n, pol in atoms(path_facts(call)):
        r = relation(n, pol)
        if not r:
            continue
        for a, op, b in ((r[0], r[1], r[2]), (r[2], FLIP[r[1]], r[0])):
            a = strip(a)
            if a.get('kind') == 'CXXMemberCallExpr' and call_name(a) in ('size', 'length') and _obj_key(a) == ok:
                c = int_value(b)
                if c is None:
                    continue
                if (op == '>' and c >= idx) or (op == '>=' and c >= idx + 1) or (op == '!=' and c == idx and idx == 0) or (op == '==' and c > idx):
                    return {'std::out_of_range': 'index %d guarded by size() %s %d on the same object' % (idx, op, c)}
                if op == '!=' and c == idx and idx >= 1 and _min_len(call, unit) >= idx:
                    return {'std::out_of_range': 'index %d guarded by size() != %d on a string that always holds at least %d character(s) (numeric printf conversion)' % (idx, c, idx)}
                # size() != 1 together with nothing else does not bound; but `size() == 1 || at(1)` gives size != 1 only
    return None


def refine_after_type_test(exc, call, d, unit, f, thr):
    """R.as_X() dominated by R.is_X() on the same object."""
    nm = (d or {}).get('name') or ''
    if not nm.startswith('as_'):
        return None
    ty = [t for t in thr if t.endswith('type_error')]
    if not ty:
        return None
    ok = _obj_key(call)
    if ok is None:
        return None
    want = 'is_' + nm[3:]
    for n, pol in atoms(path_facts(call)):
        n = strip(n)
        if pol and n.get('kind') == 'CXXMemberCallExpr' and call_name(n) == want and _obj_key(n) == ok:
            return {t: '%s() dominated by %s() on the same object' % (nm, want) for t in ty}
    return None


def make_refine_fresh_container(creators):
    """R.emplace()/emplace_back()/as_dict()/as_list() where the only reaching
    definition of local R is JSON::dict() / JSON::list()."""
    def rf(exc, call, d, unit, f, thr):
        ty = [t for t in thr if t.endswith('type_error')]
        if not ty or call.get('kind') != 'CXXMemberCallExpr':
            return None
        obj = member_call_object(call)
        rd = ref_decl(obj) if obj is not None else None
        if not rd or rd.get('kind') != 'VarDecl':
            return None
        nm = (d or {}).get('name')
        want = creators.get(nm)
        if not want:
            return None
        # nearest dominating assignment to the variable
        for s in preceding_statements(call):
            for x in walk(s):
                if x.get('kind') == 'CXXOperatorCallExpr' and call_name(x) == 'operator=' and (ref_decl(x['inner'][1]) or {}).get('id') == rd['id']:
                    if s.get('kind') not in ('CXXOperatorCallExpr', 'ExprWithCleanups'):
                        return None   # assignment nested in a compound construct: not a dominating straight-line definition
                    rhs = [c for c in walk(x['inner'][2]) if c.get('kind') == 'CallExpr']
                    names = [call_name(c) for c in rhs]
                    if want in names:
                        return {t: 'receiver `%s` was last assigned JSON::%s() (dominating, no later assignment)' % (rd.get('name'), want) for t in ty}
                    return None
                if x.get('kind') == 'UnaryOperator' and x.get('opcode') == '&' and (ref_decl(x['inner'][0]) or {}).get('id') == rd['id']:
                    return None
        return None
    return rf


def refine_variant_get(exc, call, d, unit, f, thr):
    """std::get<T>(V) dominated by an `is_X()` type test on the object that owns V,
    or std::get<N>(V) inside `case N:` of `switch (V.index())`.  (That is_X tests
    the alternative as_X returns is checked by C04-R4.)"""
    if (d or {}).get('name') != 'get' or 'std::bad_variant_access' not in thr or call.get('kind') != 'CallExpr':
        return None
    args = call_args(call)
    if not args:
        return None
    v = strip(args[0])
    if v.get('kind') != 'MemberExpr':
        return None
    owner = var_key(v['inner'][0]) if v.get('inner') else 'this'
    for n, pol in atoms(path_facts(call)):
        n = strip(n)
        if pol and n.get('kind') == 'CXXMemberCallExpr' and (call_name(n) or '').startswith('is_'):
            o = member_call_object(n)
            ok = var_key(o) if o is not None else 'this'
            if ok == owner:
                return {'std::bad_variant_access': 'get on %s dominated by %s() on the same object' % (canon(v), call_name(n))}
    # case N of switch (V.index())
    cs = enclosing(call, ('CaseStmt',))
    sw = enclosing(call, ('SwitchStmt',))
    if cs is not None and sw is not None:
        cv = int_value(kids(cs)[0]) if kids(cs) else None
        cond = [c for c in kids(sw) if c.get('kind')][0 if not sw.get('hasInit') else 1]
        cc = strip(cond)
        if cc.get('kind') == 'CXXMemberCallExpr' and call_name(cc) == 'index' and canon(member_call_object(cc)) == canon(v):
            return {'std::bad_variant_access': 'inside case %s of switch (%s.index())' % (cv, canon(v))}
        rd = ref_decl(cc)
        if rd:
            vd = unit.by_id.get(rd.get('id'))
            if vd is not None and kids(vd):
                ini = strip(kids(vd)[-1])
                if ini.get('kind') == 'CXXMemberCallExpr' and call_name(ini) == 'index' and canon(member_call_object(ini)) == canon(v):
                    return {'std::bad_variant_access': 'inside case %s of switch on %s.index()' % (cv, canon(v))}
    return None
