"""E-TABLE v2: a partial evaluator for per-character transfer functions.

The encoders / escapers / predicates the properties talk about are maps from ONE input
character (plus a mode flag) to a short output.  Their whole input domain is finite (256
byte values x a handful of modes), so the map can be tabulated exhaustively by constant
propagation through the function's AST: every variable is bound to a constant, branches
are folded, helper functions and lambdas are inlined, `switch`, loops with constant trip
counts, `std::transform` and the std::string building calls are understood.  Nothing from
phosg is compiled or run; an expression the evaluator cannot fold raises Undecided (the
rule then reports analysis-broken, never a violation).

Values: int (wrapped to the C type of the expression), Lit (pointer into a string literal
or constant array), Str (a std::string being built), None (nullptr), Lam (a lambda)."""
import re

from ast_ import *
from path import if_parts, for_parts, while_parts, loop_body


class Undecided(Exception):
    pass


class Thrown(Undecided):
    """a throw expression was reached on the evaluated path"""

    def __init__(self, node=None, what='throw reached', etype=None):
        Undecided.__init__(self, what if etype is None or etype in what else '%s (%s)' % (what, etype))
        self.node = node
        self.etype = etype
        if etype is None and what:
            # library throws raised by the models name their type in the message
            for t_ in ('out_of_range', 'invalid_argument', 'length_error', 'runtime_error', 'logic_error'):
                if t_ in what:
                    self.etype = 'std::' + t_
                    break


class Stream:
    """a constant byte stream standing for a FILE* / reader over known contents"""

    def __init__(self, data, plan=None):
        self.data = bytes(data)
        self.pos = 0
        self.plan = plan          # read(): successive maximum chunk sizes (cyclic); None = as much as asked
        self.nreads = 0
        self.eof = False
        self.fail_at = None       # index of the read()/fgets() call that fails (returns -1 / NULL without EOF)
        self.ncalls = 0


class Rec:
    """a local object of class / union type: named fields (a union has one shared slot)"""

    def __init__(self, is_union=False):
        self.f = {}
        self.is_union = is_union
        self.cls = None


class VecL:
    """a std::vector held as a python list of evaluated elements"""

    def __init__(self, items=None):
        self.items = list(items or [])


class Arr:
    """a built-in array of integers (elements of `esize` bytes, host little-endian in memory)"""

    def __init__(self, items, esize=4, signed=False):
        self.items = list(items)
        self.esize = esize
        self.signed = signed


class View:
    """a pointer to memory reinterpreted as elements of `esize` bytes in `order` ('l'/'b')"""

    def __init__(self, base, off, esize, order, signed=False):
        self.base, self.off, self.esize, self.order, self.signed = base, off, esize, order, signed


class SW:
    """phosg::StringWriter at specification level: a growing byte string (its accessor table and
    byte orders are decided by C01/C03)"""

    def __init__(self):
        self.s = Str()


class JV:
    """phosg::JSON at specification level: kind in null/bool/int/float/str/list/dict"""

    def __init__(self, kind='null', val=None):
        self.kind, self.val = kind, val

    def py(self):
        if self.kind == 'list':
            return [x.py() for x in self.val]
        if self.kind == 'dict':
            return {k: v.py() for k, v in self.val.items()}
        if self.kind == 'str':
            return bytes(self.val)
        return self.val


class MapL:
    """a std::map / std::unordered_map with string keys, held as a python dict (insertion order kept)"""

    def __init__(self):
        self.d = {}


class Heap:
    def __init__(self, size):
        self.size = size


class Fault(Exception):
    """the folded evaluation reaches undefined behaviour on this constant input (a read outside a
    constant array, an out-of-range shift): a definite defect, not an analysis gap"""
    pass


class Lit:
    __slots__ = ('data', 'off')

    def __init__(self, data, off=0):
        self.data, self.off = data, off

    def deref(self, i=0):
        j = self.off + i
        if 0 <= j < len(self.data):
            return self.data[j]
        if j == len(self.data):
            return 0          # the terminating NUL of a string literal
        raise Fault('reads index %d of a %d-element constant array' % (j, len(self.data)))

    def cstr(self):
        d = self.data[self.off:]
        k = d.find(b'\0')
        return bytes(d if k < 0 else d[:k])


class Str:
    __slots__ = ('b', 'fixed')

    def __init__(self, b=b''):
        self.b = bytearray(b)
        self.fixed = False        # True for a built-in character array (fixed extent, C-string reads)


class Lam:
    __slots__ = ('node', 'env')

    def __init__(self, node, env):
        self.node, self.env = node, env


class Thrower:
    """a callable model: invoking it returns normally (etype None) or throws an exception of type etype"""
    __slots__ = ('etype', 'calls')

    def __init__(self, etype=None):
        self.etype = etype
        self.calls = 0


class Ord:
    """component `idx` of operand `side` of a comparison-only computation: it can only be compared with
    the same component of the other operand, with the outcome fixed by PEval.ordering[idx]"""
    __slots__ = ('idx', 'side')

    def __init__(self, idx, side):
        self.idx, self.side = idx, side


class Vec:
    """an object whose components are Ord values (fields by name, at(i) by index)"""
    __slots__ = ('side', 'fields')

    def __init__(self, side, fields):
        self.side, self.fields = side, fields


class Ref:
    """reference to a variable slot of an outer frame (by-reference parameter / capture)"""
    __slots__ = ('env', 'key')

    def __init__(self, env, key):
        self.env, self.key = env, key


class Ptr(Ref):
    """pointer value &x: unlike a reference binding it is not looked through when the variable holding it is read"""
    __slots__ = ('t',)

    def __init__(self, env, key, t=None):
        Ref.__init__(self, env, key)
        self.t = t


class _Break(Exception):
    pass


class _Continue(Exception):
    pass


class _Return(Exception):
    def __init__(self, v):
        self.v = v


CTYPE = {
    'isalnum': lambda c: 48 <= c <= 57 or 65 <= c <= 90 or 97 <= c <= 122,
    'isalpha': lambda c: 65 <= c <= 90 or 97 <= c <= 122,
    'isdigit': lambda c: 48 <= c <= 57,
    'isxdigit': lambda c: 48 <= c <= 57 or 65 <= c <= 70 or 97 <= c <= 102,
    'isupper': lambda c: 65 <= c <= 90,
    'islower': lambda c: 97 <= c <= 122,
    'isspace': lambda c: c in (32, 9, 10, 11, 12, 13),
    'isblank': lambda c: c in (32, 9),
    'isprint': lambda c: 32 <= c <= 126,
    'isgraph': lambda c: 33 <= c <= 126,
    'ispunct': lambda c: 33 <= c <= 126 and not (48 <= c <= 57 or 65 <= c <= 90 or 97 <= c <= 122),
    'iscntrl': lambda c: 0 <= c <= 31 or c == 127,
}


def c_printf(fmt, args):
    """printf with constant arguments (ints already default-promoted, bytes for %s)."""
    out = bytearray()
    i = 0
    ai = 0
    while i < len(fmt):
        ch = fmt[i:i + 1]
        if ch != b'%':
            out += ch
            i += 1
            continue
        m = re.match(rb'%([-0 +#]*)(\d*|\*)(?:\.(\d+|\*))?(hh|h|ll|l|z|j|t|L|)([diuxXcsfFeEgG%])', fmt[i:])
        if not m:
            raise Undecided('unsupported printf conversion in %r' % fmt)
        flags, width, prec, length, conv = m.groups()
        i += m.end()
        if conv == b'%':
            out += b'%'
            continue
        if width == b'*':
            if ai >= len(args) or not isinstance(args[ai], int):
                raise Undecided('printf: * width')
            width = b'%d' % abs(args[ai])
            if args[ai] < 0:
                flags += b'-'
            ai += 1
        if prec == b'*':
            if ai >= len(args) or not isinstance(args[ai], int):
                raise Undecided('printf: * precision')
            prec = (b'%d' % args[ai]) if args[ai] >= 0 else None
            ai += 1
        if ai >= len(args):
            raise Undecided('printf: too few arguments')
        a = args[ai]
        ai += 1
        if conv in b'fFeEgG':
            if isinstance(a, int):
                raise Undecided('printf floating conversion of an integer')
            if not isinstance(a, float):
                raise Undecided('printf floating conversion of a non-number')
            spec = '%' + ('+' if b'+' in flags else '') + ('#' if b'#' in flags else '') + ('.%d' % int(prec) if prec is not None and prec != b'' else '') + conv.decode()
            s = (spec % a).encode()
            prec = None       # the zero flag applies to floating conversions whatever the precision
        elif conv == b's':
            s = a.cstr() if isinstance(a, Lit) else bytes(a.b) if isinstance(a, Str) else None
            if s is None:
                raise Undecided('printf %s of a non-string')
            if prec:
                s = s[:int(prec)]
        elif conv == b'c':
            s = bytes([a & 0xFF])
        else:
            if not isinstance(a, int):
                raise Undecided('printf integer conversion of a non-integer')
            bits = {b'hh': 8, b'h': 16, b'': 32, b'l': 64, b'll': 64, b'z': 64, b'j': 64, b't': 64}[length]
            if conv in (b'd', b'i'):
                v = a & ((1 << bits) - 1)
                if v >> (bits - 1):
                    v -= 1 << bits
                s = (b'%d' % abs(v))
                if prec:
                    s = s.rjust(int(prec), b'0')
                if v < 0:
                    s = b'-' + s
                elif b'+' in flags:
                    s = b'+' + s
            else:
                v = a & ((1 << bits) - 1)
                s = {b'u': b'%d', b'x': b'%x', b'X': b'%X'}[conv] % v
                if prec:
                    s = s.rjust(int(prec), b'0')
        w = int(width) if width else 0
        if len(s) < w:
            if b'-' in flags:
                s = s.ljust(w, b' ')
            elif b'0' in flags and conv not in (b's', b'c') and not prec:
                neg = s[:1] in (b'-', b'+')
                s = (s[:1] + s[1:].rjust(w - 1, b'0')) if neg else s.rjust(w, b'0')
            else:
                s = s.rjust(w, b' ')
        out += s
    return bytes(out)


_ENUM_CACHE = {}


def _f32(x):
    """round a python float to IEEE single precision"""
    import struct
    try:
        return struct.unpack('f', struct.pack('f', x))[0]
    except OverflowError:
        return float('inf') if x > 0 else float('-inf')


class PEval:
    def __init__(self, units, max_depth=6, max_iter=4096):
        self.ordering = {}
        self.units = units if isinstance(units, (list, tuple)) else [units]
        self.max_depth = max_depth
        self.max_iter = max_iter
        self.enums = {}
        for u in self.units:
            if id(u) in _ENUM_CACHE:
                self.enums.update(_ENUM_CACHE[id(u)])
                continue
            mine = _ENUM_CACHE.setdefault(id(u), {})
            for r in u.roots:
                for e in walk(r):
                    if e.get('kind') == 'EnumDecl':
                        nxt = 0
                        for c in kids(e):
                            if c.get('kind') == 'EnumConstantDecl':
                                v = None
                                for x in walk(c):
                                    if x is not c and x.get('kind') in ('ConstantExpr', 'IntegerLiteral') and 'value' in x:
                                        try:
                                            v = int(x['value'])
                                        except ValueError:
                                            v = None
                                        break
                                if v is None:
                                    v = nxt
                                self.enums[c['id']] = v
                                mine[c['id']] = v
                                nxt = v + 1

    # ------------------------------------------------------------------ helpers
    def record_kind(self, t):
        nm = strip_targs(t or '').replace('const ', '').replace('struct ', '').strip().split('::')[-1]
        if not nm or not nm[0].isalpha():
            return None
        if nm in ('tm', 'timeval', 'timespec', 'stat', 'pollfd', 'iovec'):
            return 'struct'
        if not hasattr(self, '_records'):
            self._records = {}
            for u in self.units:
                for r in u.roots:
                    for e in walk(r):
                        if e.get('kind') == 'CXXRecordDecl' and e.get('name') and e.get('completeDefinition'):
                            self._records.setdefault(e['name'], e.get('tagUsed'))
        return self._records.get(nm)

    @staticmethod
    def elem_info(t):
        """(size, order, signed) of an integral / phosg endian-wrapper element type"""
        t = (t or '').replace('const ', '').replace('phosg::', '').strip()
        m = re.match(r'^(be|le|re)_(u?)int(\d+)_t$', t)
        if m:
            return int(m.group(3)) // 8, ('b' if m.group(1) in ('be', 're') else 'l'), m.group(2) != 'u'
        m = re.match(r'^(big|little|reverse|same)_endian<(.+?)(?:,.*)?>$', t) or re.match(r'^converted_endian<(.+?), *(.+?), *(\w+)>$', t)
        if m and m.re.pattern.startswith('^(big'):
            ii = int_type_info(m.group(2).strip())
            if ii:
                return ii[0] // 8, ('b' if m.group(1) in ('big', 'reverse') else 'l'), ii[1]
        if m and m.re.pattern.startswith('^converted'):
            ii = int_type_info(m.group(1).strip())
            if ii:
                return ii[0] // 8, ('b' if 'bswap' in m.group(3) else 'l'), ii[1]
        ii = int_type_info(t)
        if ii and ii[0] >= 8:
            return ii[0] // 8, 'l', ii[1]
        return None

    def mem_bytes(self, v, n):
        """n bytes starting at the address a pointer value designates"""
        if isinstance(v, Lit):
            data = v.data if isinstance(v.data, (bytes, bytearray)) else None
            if data is None:
                raise Undecided('bytes of a non-byte constant array')
            if v.off < 0 or v.off + n > len(data) + 1:
                raise Fault('read of %d bytes at offset %d of a %d-byte constant' % (n, v.off, len(data)))
            return (bytes(data) + b'\0')[v.off:v.off + n]
        if isinstance(v, tuple) and v and v[0] == 'bufptr':
            if v[2] < 0 or v[2] + n > len(v[1].b) + 1:
                raise Fault('read of %d bytes at offset %d of a %d-byte buffer' % (n, v[2], len(v[1].b)))
            return (bytes(v[1].b) + b'\0')[v[2]:v[2] + n]
        if isinstance(v, Str):
            if n > len(v.b) + 1:
                raise Fault('read of %d bytes from a %d-byte buffer' % (n, len(v.b)))
            return (bytes(v.b) + b'\0')[:n]
        if isinstance(v, View):
            return self.mem_bytes(self.shift_ptr(v.base, v.off), n)
        if isinstance(v, Arr):
            raw = b''.join((x & ((1 << (8 * v.esize)) - 1)).to_bytes(v.esize, 'little') for x in v.items)
            if n > len(raw):
                raise Fault('read of %d bytes from a %d-byte array' % (n, len(raw)))
            return raw[:n]
        if isinstance(v, tuple) and v and v[0] == 'scalar':
            raw = (v[1] & ((1 << (8 * v[2])) - 1)).to_bytes(v[2], 'big' if v[3] == 'b' else 'little')
            if n > len(raw):
                raise Fault('read of %d bytes from a %d-byte object' % (n, len(raw)))
            return raw[:n]
        raise Undecided('bytes behind this pointer')

    @staticmethod
    def shift_ptr(v, k):
        if isinstance(v, Lit):
            return Lit(v.data, v.off + k)
        if isinstance(v, tuple) and v and v[0] == 'bufptr':
            return ('bufptr', v[1], v[2] + k)
        if isinstance(v, Str):
            return ('bufptr', v, k)
        raise Undecided('pointer arithmetic on this value')

    def addr_bytes_source(self, n, env, depth):
        """value designating the bytes an address expression points at (for memcpy sources)"""
        n0 = strip(n)
        while n0 is not None and n0.get('kind') in ('ImplicitCastExpr', 'CStyleCastExpr', 'CXXStaticCastExpr', 'CXXReinterpretCastExpr', 'ParenExpr') and kids(n0):
            n0 = strip(kids(n0)[0])
        if n0 is not None and n0.get('kind') == 'UnaryOperator' and n0.get('opcode') == '&':
            e = strip(kids(n0)[0])
            if e.get('kind') == 'DeclRefExpr':
                ei = self.elem_info(dtype(e))
                v = self.ev(e, env, depth)
                if ei and isinstance(v, int):
                    return ('scalar', v, ei[0], ei[1])
                if isinstance(v, float) and (dtype(e) or '').replace('const ', '') in ('float', 'double'):
                    import struct as _st
                    raw_ = _st.pack('<f' if 'float' in (dtype(e) or '') else '<d', v)
                    return Lit(raw_)
                if isinstance(v, (Arr, Str, Rec)):
                    return v
        pv = self.ev(n, env, depth)
        if isinstance(pv, Ptr):
            # a pointer value that travelled through a parameter or a local: the bytes of the object it designates
            v = self.lookup(pv.env, pv.key)
            ei = self.elem_info(pv.t)
            if ei and isinstance(v, int):
                return ('scalar', v, ei[0], ei[1])
            if isinstance(v, float) and (pv.t or '').replace('const ', '') in ('float', 'double'):
                import struct as _st
                return Lit(_st.pack('<f' if 'float' in pv.t else '<d', v))
            if isinstance(v, (Arr, Str, Rec)):
                return v
            raise Undecided('bytes of the object a pointer designates')
        return pv

    def store_bytes(self, dst_n, data, env, depth):
        """memcpy-style store of `data` at the address dst_n designates"""
        tgt = self.buf_target(dst_n, env, depth)
        if tgt is not None:
            buf, off = tgt
            if off < 0 or off + len(data) > len(buf.b):
                raise Fault('store of %d bytes at offset %d of a %d-byte buffer' % (len(data), off, len(buf.b)))
            buf.b[off:off + len(data)] = data
            return
        v = self.ev(dst_n, env, depth)
        if isinstance(v, Arr):
            if len(data) > len(v.items) * v.esize:
                raise Fault('store of %d bytes into a %d-byte array' % (len(data), len(v.items) * v.esize))
            if len(data) % v.esize:
                raise Undecided('partial element store')
            for i in range(len(data) // v.esize):
                x = int.from_bytes(data[i * v.esize:(i + 1) * v.esize], 'little')
                if v.signed and x >> (8 * v.esize - 1):
                    x -= 1 << (8 * v.esize)
                v.items[i] = x
            return
        raise Undecided('store through this pointer')

    def lookup_or(self, env, key, default=None):
        try:
            return self.lookup(env, key)
        except KeyError:
            return default

    def exc_matches(self, etype, htype):
        """does a handler for htype catch an exception of dynamic type etype"""
        if etype is None:
            raise Undecided('exception of unknown type reaches a handler')
        from exc import Exc
        if not hasattr(self, '_exc'):
            self._exc = Exc(self.units)
        h = htype.replace('const ', '').replace('&', '').strip()
        return self._exc.derives(etype, h)

    def new_object(self, t):
        """a default-initialised object of the repo class named by type t (fields from the AST)"""
        nm = strip_targs(t or '').replace('const ', '').replace('struct ', '').replace('class ', '').strip().split('::')[-1]
        rec = None
        for u in self.units:
            for r in u.records:
                if r.get('name') == nm and r.get('completeDefinition') and rec is None:
                    rec = r
        if rec is None:
            return None
        o = Rec(rec.get('tagUsed') == 'union')
        o.cls = nm
        for f_ in kids(rec):
            if f_.get('kind') == 'FieldDecl' and f_.get('name'):
                ft = (f_.get('type') or {}).get('desugaredQualType') or (f_.get('type') or {}).get('qualType') or ''
                m_ = re.match(r'^(.+?)\[(\d+)\]$', ft)
                if m_ and self.elem_info(m_.group(1)) and self.elem_info(m_.group(1))[0] > 1:
                    ei_ = self.elem_info(m_.group(1))
                    o.f[f_['name']] = Arr([0] * int(m_.group(2)), ei_[0], ei_[2])
                elif int_type_info(ft):
                    o.f[f_['name']] = 0
                elif ft.rstrip().endswith('*'):
                    o.f[f_['name']] = None
                elif 'basic_string' in ft:
                    o.f[f_['name']] = Str()
        return o

    def find_ctor(self, cls, ctor_type):
        for u_ in self.units:
            for g_ in u_.functions:
                if g_.get('kind') == 'CXXConstructorDecl' and g_.get('name') == cls and body_of(g_) is not None and (g_.get('type') or {}).get('qualType') == ctor_type:
                    return g_
        return None

    def buf_target(self, n, env, depth):
        """(Str, offset) designated by a writable buffer argument: X.data(), X.data() + k, &X[k]"""
        n = strip(n)
        while n is not None and n.get('kind') in ('ImplicitCastExpr', 'CStyleCastExpr', 'CXXStaticCastExpr', 'CXXReinterpretCastExpr', 'ParenExpr') and kids(n):
            n = strip(kids(n)[0])
        if n is None:
            return None
        k = n.get('kind')
        if k == 'CXXMemberCallExpr' and call_name(n) == 'data':
            o = self.ev(member_call_object(n), env, depth)
            if isinstance(o, Str):
                return o, 0
        if k == 'BinaryOperator' and n.get('opcode') == '+':
            a = self.buf_target(n['inner'][0], env, depth)
            off = self.ev(n['inner'][1], env, depth)
            if a is not None and isinstance(off, int):
                return a[0], a[1] + off
        if k == 'UnaryOperator' and n.get('opcode') == '&':
            e = strip(n['inner'][0])
            if e.get('kind') == 'CXXOperatorCallExpr' and call_name(e) == 'operator[]':
                o = self.ev(kids(e)[1], env, depth)
                i = self.ev(kids(e)[2], env, depth)
                if isinstance(o, Str) and isinstance(i, int):
                    return o, i
            if e.get('kind') == 'ArraySubscriptExpr':
                o = self.ev(kids(e)[0], env, depth)
                i = self.ev(kids(e)[1], env, depth)
                if isinstance(o, Str) and isinstance(i, int):
                    return o, i
        if k == 'DeclRefExpr':
            try:
                v = self.lookup(env, (n.get('referencedDecl') or {}).get('id'))
            except KeyError:
                v = None
            if isinstance(v, tuple) and v and v[0] == 'bufptr':
                return v[1], v[2]
            if isinstance(v, Str) and getattr(v, 'fixed', False):
                return v, 0
        return None

    def wrap(self, v, t):
        if not isinstance(v, int) or isinstance(v, bool):
            return int(v) if isinstance(v, bool) else v
        info = int_type_info(t)
        if info is None:
            return v
        bits, signed = info
        if bits == 1:
            return 1 if v else 0
        v &= (1 << bits) - 1
        if signed and v >> (bits - 1):
            v -= 1 << bits
        return v

    def truth(self, v):
        if isinstance(v, (int, float)):
            return v != 0
        if v is None:
            return False
        if isinstance(v, (Lit, Str, Lam)):
            return True
        raise Undecided('condition is not a constant')

    def lookup(self, env, key):
        e = env
        while e is not None:
            if key in e:
                v = e[key]
                if type(v) is Ref:
                    return self.lookup(v.env, v.key)
                return v
            e = e.get('__parent__')
        raise KeyError(key)

    def store(self, env, key, val):
        e = env
        while e is not None:
            if key in e:
                if type(e[key]) is Ref:
                    return self.store(e[key].env, e[key].key, val)
                e[key] = val
                return
            e = e.get('__parent__')
        env[key] = val

    def global_const(self, rd):
        """constant value of a namespace-scope / static const variable"""
        for d in DECLS.get(rd.get('id'), ()):
            if d.get('kind') == 'VarDecl' and d.get('name') == rd.get('name') and d.get('inner'):
                init = [c for c in d['inner'] if c.get('kind') and not c['kind'].endswith('Attr')]
                if not init:
                    continue
                qt = ((d.get('type') or {}).get('qualType') or '')
                if 'const' not in qt and not d.get('constexpr'):
                    raise Undecided('read of the mutable global %s' % rd.get('name'))
                return self.const_init(init[-1], qt)
        raise Undecided('no constant initialiser for %s' % rd.get('name'))

    def const_init(self, n, qt):
        n0 = strip(n)
        lit = self.string_literal(n0)
        if lit is not None:
            return Lit(lit)
        if n0.get('kind') == 'InitListExpr':
            vals = []
            for c in kids(n0):
                v = self.ev(c, {})
                if not isinstance(v, int):
                    raise Undecided('non-integer element in a constant array')
                vals.append(v & 0xFF if ('char' in qt or 'int8' in qt) else v)
            if 'char' in qt or 'int8' in qt:
                return Lit(bytes(vals))
            return Lit(vals)
        return self.ev(n, {})

    @staticmethod
    def string_literal(n):
        n = strip(n)
        while n is not None and n.get('kind') in ('ImplicitCastExpr', 'ParenExpr', 'CXXConstructExpr', 'MaterializeTemporaryExpr', 'CXXBindTemporaryExpr', 'ExprWithCleanups', 'CXXFunctionalCastExpr') and kids(n):
            ks = [c for c in kids(n) if c.get('kind') != 'CXXDefaultArgExpr']
            if len(ks) != 1:
                break
            n = strip(ks[0])
        if n is not None and n.get('kind') == 'StringLiteral':
            from props.c04 import unescape_c
            return unescape_c(n.get('value'))
        return None

    # ------------------------------------------------------------------ expressions
    def ev(self, n, env, depth=0):
        n = strip(n, casts=False)
        k = n.get('kind')
        t = dtype(n)
        if k in ('IntegerLiteral', 'CharacterLiteral'):
            return self.wrap(int(n['value']), t)
        if k == 'CXXBoolLiteralExpr':
            return 1 if n['value'] else 0
        if k in ('CXXNullPtrLiteralExpr', 'GNUNullExpr'):
            return None
        if k == 'FloatingLiteral':
            return float(n['value'])
        if k == 'StringLiteral':
            from props.c04 import unescape_c
            return Lit(unescape_c(n.get('value')))
        if k == 'ConstantExpr' and 'value' in n:
            try:
                return self.wrap(int(n['value']), t)
            except (TypeError, ValueError):
                pass
        if k in ('ParenExpr', 'ExprWithCleanups', 'MaterializeTemporaryExpr', 'CXXBindTemporaryExpr', 'ConstantExpr', 'SubstNonTypeTemplateParmExpr'):
            return self.ev(kids(n)[0], env, depth)
        if k in ('ImplicitCastExpr', 'CStyleCastExpr', 'CXXStaticCastExpr', 'CXXFunctionalCastExpr', 'CXXReinterpretCastExpr', 'CXXConstCastExpr'):
            ck = n.get('castKind')
            v = self.ev(kids(n)[0], env, depth)
            if ck == 'BitCast' and k != 'ImplicitCastExpr' and (qtype(n) or '').rstrip().endswith('*'):
                et = (dtype(n) or qtype(n) or '').rstrip()[:-1].strip()
                ei_ = self.elem_info(et)
                if isinstance(v, View):
                    v = self.shift_ptr(v.base, v.off)
                if ei_ and ei_[0] > 1 and (isinstance(v, (Lit, Str)) or (isinstance(v, tuple) and v and v[0] == 'bufptr')):
                    return View(v, 0, ei_[0], ei_[1], ei_[2])
                if ei_ and ei_[0] == 1 and isinstance(v, View):
                    return v
            if ck in ('IntegralCast', 'IntegralToBoolean', 'PointerToBoolean'):
                if ck == 'PointerToBoolean':
                    return 1 if v is not None else 0
                return self.wrap(v, t) if isinstance(v, int) else (1 if self.truth(v) else 0) if ck == 'IntegralToBoolean' else v
            if ck == 'IntegralToFloating':
                return (_f32(float(v)) if t == 'float' else float(v)) if isinstance(v, int) else v
            if ck == 'FloatingCast':
                return _f32(v) if t == 'float' and isinstance(v, float) else v
            if ck == 'FloatingToBoolean':
                return 1 if v != 0.0 else 0
            if ck == 'FloatingToIntegral':
                if not isinstance(v, float) or v != v or abs(v) >= 2.0 ** 64:
                    raise Fault('conversion of the floating value %r to an integer is undefined' % (v,))
                return self.wrap(int(v), t)
            if ck == 'ConstructorConversion' or ck == 'UserDefinedConversion':
                return v
            return v
        if k == 'DeclRefExpr':
            rd = n.get('referencedDecl') or {}
            if rd.get('kind') == 'EnumConstantDecl':
                if rd['id'] in self.enums:
                    return self.wrap(self.enums[rd['id']], t)
                raise Undecided('enum constant %s' % rd.get('name'))
            try:
                return self.lookup(env, rd.get('id'))
            except KeyError:
                pass
            if rd.get('kind') == 'VarDecl':
                if rd.get('name') == 'npos':
                    return (1 << 64) - 1
                return self.global_const(rd)
            if rd.get('kind') in ('FunctionDecl', 'CXXMethodDecl'):
                return ('fn', rd)
            raise Undecided('unbound variable %s' % rd.get('name'))
        if k == 'UnaryOperator':
            op = n.get('opcode')
            sub = kids(n)[0]
            if op in ('++', '--'):
                cur = self.ev(sub, env, depth)
                if isinstance(cur, Lit):
                    new = Lit(cur.data, cur.off + (1 if op == '++' else -1))
                elif isinstance(cur, int):
                    new = self.wrap(cur + (1 if op == '++' else -1), dtype(sub))
                else:
                    raise Undecided('++/-- of a non-constant')
                self.assign(sub, new, env, depth)
                return cur if n.get('isPostfix') else new
            if op == '*':
                v = self.ev(sub, env, depth)
                if isinstance(v, Lit):
                    x = v.deref(0)
                    return self.wrap(x, t) if isinstance(x, int) else x
                if isinstance(v, Ref):
                    return self.lookup(v.env, v.key)
                if isinstance(v, Vec):
                    return v
                if isinstance(v, tuple) and v and v[0] == 'iter':
                    return self.wrap(v[1].b[v[2]], t)
                raise Undecided('dereference of a non-constant pointer')
            if op == '&':
                s0 = strip(sub)
                if s0.get('kind') == 'ArraySubscriptExpr':
                    base = self.ev(s0['inner'][0], env, depth)
                    idx = self.ev(s0['inner'][1], env, depth)
                    if isinstance(base, Lit) and isinstance(idx, int):
                        return Lit(base.data, base.off + idx)
                rd = ref_decl(s0)
                if rd is not None:
                    return Ptr(env, rd['id'], dtype(s0))
                raise Undecided('address-of')
            v = self.ev(sub, env, depth)
            if op == '!':
                return 0 if self.truth(v) else 1
            if isinstance(v, float) and op in ('-', '+'):
                return -v if op == '-' else v
            if isinstance(v, tuple) and v == ('uninit',) and op in ('-', '+', '~'):
                return v         # arithmetic on an indeterminate value stays indeterminate (it is an error only if it is used)
            if not isinstance(v, int):
                raise Undecided('unary %s on a non-integer' % op)
            return self.wrap({'-': -v, '+': v, '~': ~v}[op], t)
        if k in ('BinaryOperator', 'CompoundAssignOperator'):
            return self.binop(n, env, depth)
        if k == 'CXXRewrittenBinaryOperator':
            return self.ev(kids(n)[0], env, depth)
        if k == 'ConditionalOperator':
            c = self.truth(self.ev(kids(n)[0], env, depth))
            return self.ev(kids(n)[1 if c else 2], env, depth)
        if k == 'ArraySubscriptExpr':
            base = self.ev(kids(n)[0], env, depth)
            idx = self.ev(kids(n)[1], env, depth)
            if isinstance(idx, Lit) and isinstance(base, int):
                base, idx = idx, base
            if not isinstance(idx, int):
                raise Undecided('non-constant subscript')
            if isinstance(base, Arr):
                if 0 <= idx < len(base.items):
                    return base.items[idx]
                raise Fault('index %d is outside the %d-element array' % (idx, len(base.items)))
            if isinstance(base, View):
                raw = self.mem_bytes(self.shift_ptr(base.base, base.off + idx * base.esize), base.esize)
                x = int.from_bytes(raw, 'big' if base.order == 'b' else 'little')
                if base.signed and x >> (8 * base.esize - 1):
                    x -= 1 << (8 * base.esize)
                return x
            if isinstance(base, tuple) and base and base[0] == 'bufptr':
                if 0 <= base[2] + idx < len(base[1].b):
                    return self.wrap(base[1].b[base[2] + idx], t)
                if base[2] + idx == len(base[1].b):
                    return 0
                raise Fault('read at offset %d of a %d-byte buffer' % (base[2] + idx, len(base[1].b)))
            if isinstance(base, Vec):
                # the object viewed as an array of its (equally typed, in-order) components
                if 0 <= idx < len(base.fields):
                    return Ord(idx, base.side)
                raise Fault('component index %d is outside the %d components' % (idx, len(base.fields)))
            if isinstance(base, Lit):
                x = base.deref(idx)
                return self.wrap(x, t) if isinstance(x, int) else x
            if isinstance(base, Str):
                if 0 <= idx < len(base.b):
                    return self.wrap(base.b[idx], t)
                if idx == len(base.b):
                    return 0
                raise Undecided('string subscript out of range')
            raise Undecided('subscript of a non-constant array')
        if k == 'LambdaExpr':
            return Lam(n, env)
        if k in ('CXXConstructExpr', 'CXXTemporaryObjectExpr'):
            return self.construct(n, env, depth)
        if k == 'CXXDefaultArgExpr':
            ks = [c for c in kids(n) if c.get('kind')]
            if ks:
                return self.ev(ks[0], env, depth)
            raise Undecided('default argument without an expression in the dump')
        if k == 'CXXThisExpr':
            try:
                return self.lookup(env, '__this__')
            except KeyError:
                return ('this',)
        if k == 'MemberExpr':
            base = self.ev(kids(n)[0], env, depth) if kids(n) else None
            if isinstance(base, Vec) and not n.get('name'):
                return base       # anonymous struct / union member: same object
            if isinstance(base, Vec) and n.get('name') in base.fields:
                return Ord(base.fields.index(n.get('name')), base.side)
            if isinstance(base, Rec):
                key_ = '__u' if base.is_union else n.get('name')
                if key_ in base.f:
                    return base.f[key_]
                raise Undecided('read of the unset member %s' % n.get('name'))
            raise Undecided('member access %s' % n.get('name'))
        if k in ('CallExpr', 'CXXMemberCallExpr', 'CXXOperatorCallExpr'):
            return self.call(n, env, depth)
        if k == 'UnaryExprOrTypeTraitExpr':
            v = int_value(n)
            if v is not None:
                return v
            if n.get('name') == 'sizeof' and kids(n):
                v = sizeof_type(dtype(strip(kids(n)[0])) or qtype(strip(kids(n)[0])))
                if v is not None:
                    return v
        if k == 'CXXScalarValueInitExpr':
            return 0
        if k == 'CXXStdInitializerListExpr':
            # std::initializer_list<T>{a, b, c}: the materialised array of its elements
            inner = strip(kids(n)[0]) if kids(n) else None
            while inner is not None and inner.get('kind') in ('MaterializeTemporaryExpr', 'ImplicitCastExpr', 'ExprWithCleanups') and kids(inner):
                inner = strip(kids(inner)[0])
            if inner is not None and inner.get('kind') == 'InitListExpr':
                return VecL([self.ev(c, env, depth) for c in kids(inner) if c.get('kind') and c.get('kind') != 'ImplicitValueInitExpr'])
            raise Undecided('initializer_list form')
        if k == 'InitListExpr':
            ks = [c for c in kids(n) if c.get('kind')]
            if len(ks) == 1:
                return self.ev(ks[0], env, depth)
        v = int_value(n)
        if v is not None:
            return v
        raise Undecided('expression kind %s at %s' % (k, loc_str(n)))

    def construct(self, n, env, depth):
        t = dtype(n) or ''
        args = [c for c in kids(n) if c.get('kind') and c.get('kind') != 'CXXDefaultArgExpr']
        if t.replace('const ', '').replace('phosg::', '').strip() == 'JSON':
            if not args:
                return JV()
            if len(args) == 1:
                v = self.ev(args[0], env, depth)
                at = (dtype(strip(args[0])) or qtype(strip(args[0])) or '')
                if isinstance(v, JV):
                    return JV(v.kind, v.val)        # containers are shared on purpose: moves dominate in the parser
                if v is None:
                    return JV('null', None)
                if isinstance(v, float):
                    return JV('float', v)
                if isinstance(v, (Str, Lit)):
                    return JV('str', bytearray(v.b) if isinstance(v, Str) else bytearray(v.cstr()))
                if isinstance(v, int):
                    return JV('bool', bool(v)) if at.replace('const ', '').strip() == 'bool' else JV('int', v)
            raise Undecided('JSON constructor form')
        if t.replace('const ', '').startswith(('std::unique_ptr<', 'std::shared_ptr<')) and len(args) in (1, 2):
            return self.ev(args[0], env, depth)          # the owner stands for the pointer it holds
        if t.replace('const ', '').startswith('std::pair<') and len(args) in (1, 2):
            from props.c04 import split_targs
            ts = split_targs(t)
            vals = [self.ev(a, env, depth) for a in args]
            if len(vals) == 1 and isinstance(vals[0], tuple) and vals[0] and vals[0][0] == 'pair':
                vals = list(vals[0][1:])
            if len(vals) == 2 and len(ts) == 2:
                out = []
                for v, et in zip(vals, ts):
                    if isinstance(v, float) and int_type_info(et):
                        bits, signed = int_type_info(et)
                        lo, hi = (-(1 << (bits - 1)), (1 << (bits - 1)) - 1) if signed else (0, (1 << bits) - 1)
                        if v != v or not (lo - 1 < v < hi + 1):
                            raise Fault('conversion of the floating value %r to %s is undefined' % (v, et))
                        v = int(v)
                    if isinstance(v, int) and int_type_info(et):
                        v = self.wrap(v, et)
                    if isinstance(v, Lit) and 'basic_string' in et:
                        v = Str(v.cstr())
                    out.append(v)
                return ('pair',) + tuple(out)
        if t.replace('const ', '').startswith(('std::vector<', 'std::deque<')) and len(args) == 1:
            v_ = self.ev(args[0], env, depth)
            if isinstance(v_, VecL):
                return v_            # copy / move construction of a container value
        if 'basic_string' in t:
            if not args:
                return Str()
            vals = [self.ev(a, env, depth) for a in args]
            if len(vals) == 1:
                v = vals[0]
                if isinstance(v, Str):
                    return Str(v.b)
                if isinstance(v, Lit):
                    return Str(v.cstr())
            if len(vals) == 2:
                a, b = vals
                if isinstance(a, Lit) and isinstance(b, int):
                    return Str(bytes(a.data[a.off:a.off + b]))
                if isinstance(a, Str) and isinstance(b, int):
                    if '*' in (qtype(strip(args[0])) or '') or '[' in (qtype(strip(args[0])) or '') or getattr(a, 'fixed', False):
                        if b > len(a.b):
                            raise Fault('string(ptr, %d) reads past a %d-byte buffer' % (b, len(a.b)))
                        return Str(a.b[:b])
                    if b > len(a.b):
                        raise Thrown(n, 'std::out_of_range from string(str, pos)')
                    return Str(a.b[b:])
                if isinstance(a, int) and isinstance(b, int):
                    return Str(bytes([b & 0xFF]) * a)
                if isinstance(a, tuple) and a[0] == 'iter' and isinstance(b, tuple) and b[0] == 'iter':
                    return Str(a[1].b[a[2]:b[2]])
            raise Undecided('std::string constructor form %s at %s' % ([type(v_).__name__ for v_ in vals], loc_str(n)))
        if len(args) == 1:
            return self.ev(args[0], env, depth)
        if not args:
            return 0
        raise Undecided('constructor of %s' % t)

    def assign(self, target, val, env, depth):
        s0 = strip(target)
        rd = ref_decl(s0)
        if s0.get('kind') == 'DeclRefExpr' and rd is not None:
            self.store(env, rd['id'], val)
            return
        if s0.get('kind') == 'MemberExpr' and kids(s0):
            try:
                base = self.ev(kids(s0)[0], env, depth)
            except Undecided:
                base = None
            if isinstance(base, Rec):
                base.f['__u' if base.is_union else s0.get('name')] = val
                return
        if s0.get('kind') == 'UnaryOperator' and s0.get('opcode') == '*':
            p = self.ev(kids(s0)[0], env, depth)
            if isinstance(p, Ref):
                pt = (qtype(strip(kids(s0)[0])) or '').replace('const ', '').strip()
                cur = self.lookup_or(p.env, p.key)
                if isinstance(val, float) and pt in ('float *', 'double *') and (isinstance(cur, int) or cur == ('uninit',)):
                    # *(double*)&u64 = x: the object keeps the bit pattern of x
                    import struct as _st
                    val = int.from_bytes(_st.pack('<f' if pt.startswith('float') else '<d', val), 'little')
                self.store(p.env, p.key, val)
                return
        if s0.get('kind') in ('ArraySubscriptExpr', 'CXXOperatorCallExpr'):
            ks = kids(s0) if s0.get('kind') == 'ArraySubscriptExpr' else kids(s0)[1:]
            base = self.ev(ks[0], env, depth)
            idx = self.ev(ks[1], env, depth)
            if isinstance(base, Str) and isinstance(idx, int) and 0 <= idx < len(base.b) and isinstance(val, int):
                base.b[idx] = val & 0xFF
                return
            if isinstance(base, Str) and isinstance(idx, int) and isinstance(val, int):
                raise Fault('store at index %d of a %d-byte buffer' % (idx, len(base.b)))
            if isinstance(base, Arr) and isinstance(idx, int) and isinstance(val, int):
                if not 0 <= idx < len(base.items):
                    raise Fault('store at index %d of a %d-element array' % (idx, len(base.items)))
                x = val & ((1 << (8 * base.esize)) - 1)
                if base.signed and x >> (8 * base.esize - 1):
                    x -= 1 << (8 * base.esize)
                base.items[idx] = x
                return
        if s0.get('kind') == 'CXXMemberCallExpr' and call_name(s0) in ('back', 'front') and isinstance(val, int):
            base = self.ev(member_call_object(s0), env, depth)
            if isinstance(base, Str):
                if not base.b:
                    raise Fault('%s() of an empty string' % call_name(s0))
                base.b[-1 if call_name(s0) == 'back' else 0] = val & 0xFF
                return
            if isinstance(base, VecL):
                if not base.items:
                    raise Fault('%s() of an empty vector' % call_name(s0))
                base.items[-1 if call_name(s0) == 'back' else 0] = val
                return
        raise Undecided('assignment to `%s`' % src_text(target, 40))

    def binop(self, n, env, depth):
        op = n.get('opcode')
        a_n, b_n = kids(n)[0], kids(n)[1]
        t = dtype(n)
        if op == ',':
            self.ev(a_n, env, depth)
            return self.ev(b_n, env, depth)
        if op in ('&&', '||'):
            a = self.truth(self.ev(a_n, env, depth))
            if op == '&&' and not a:
                return 0
            if op == '||' and a:
                return 1
            return 1 if self.truth(self.ev(b_n, env, depth)) else 0
        if op == '=':
            v = self.ev(b_n, env, depth)
            if isinstance(v, int):
                v = self.wrap(v, dtype(a_n))
            self.assign(a_n, v, env, depth)
            return v
        if n.get('kind') == 'CompoundAssignOperator':
            cur = self.ev(a_n, env, depth)
            rhs = self.ev(b_n, env, depth)
            ct = (n.get('computeResultType') or {}).get('desugaredQualType') or (n.get('computeResultType') or {}).get('qualType') or t
            if isinstance(cur, Lit) and isinstance(rhs, int) and op in ('+=', '-='):
                v = Lit(cur.data, cur.off + (rhs if op == '+=' else -rhs))
            elif isinstance(cur, float) or isinstance(rhs, float):
                if not isinstance(cur, (int, float)) or not isinstance(rhs, (int, float)) or op not in ('+=', '-=', '*=', '/='):
                    raise Undecided('floating compound assignment')
                fa, fb = float(cur), float(rhs)
                v = {'+=': fa + fb, '-=': fa - fb, '*=': fa * fb, '/=': fa / fb if fb else 0.0}[op]
                if int_type_info(dtype(a_n)):
                    v = self.wrap(int(v), dtype(a_n))
            else:
                if not isinstance(cur, int) or not isinstance(rhs, int):
                    raise Undecided('compound assignment on non-integers')
                cl = self.wrap(cur, ct) if op not in ('<<=', '>>=') else cur
                v = self.wrap(self.arith(op[:-1], cl, self.wrap(rhs, ct) if op not in ('<<=', '>>=') else rhs, ct, n), dtype(a_n))
            self.assign(a_n, v, env, depth)
            return v
        a = self.ev(a_n, env, depth)
        b = self.ev(b_n, env, depth)
        if op in ('+', '-') and isinstance(b, int) and ((isinstance(a, tuple) and a and a[0] == 'bufptr') or isinstance(a, View)):
            k_ = b if op == '+' else -b
            if isinstance(a, View):
                return View(a.base, a.off + k_ * a.esize, a.esize, a.order, a.signed)
            return ('bufptr', a[1], a[2] + k_)
        if op == '+' and isinstance(a, int) and isinstance(b, tuple) and b and b[0] == 'bufptr':
            return ('bufptr', b[1], b[2] + a)
        if isinstance(a, Lit) or isinstance(b, Lit) or a is None or b is None:
            if op in ('==', '!='):
                same = (a is None and b is None) or (isinstance(a, Lit) and isinstance(b, Lit) and a.data is b.data and a.off == b.off)
                if (a is None) != (b is None):
                    same = False
                return 1 if (same if op == '==' else not same) else 0
            if op == '+' and isinstance(a, Lit) and isinstance(b, int):
                return Lit(a.data, a.off + b)
            if op == '+' and isinstance(b, Lit) and isinstance(a, int):
                return Lit(b.data, b.off + a)
            if op == '-' and isinstance(a, Lit) and isinstance(b, int):
                return Lit(a.data, a.off - b)
            if op == '-' and isinstance(a, Lit) and isinstance(b, Lit) and (a.data is b.data or a.data == b.data):
                return a.off - b.off
            if op in ('<', '>', '<=', '>=') and isinstance(a, Lit) and isinstance(b, Lit) and (a.data is b.data or a.data == b.data):
                return 1 if {'<': a.off < b.off, '>': a.off > b.off, '<=': a.off <= b.off, '>=': a.off >= b.off}[op] else 0
            raise Undecided('pointer arithmetic form')
        if isinstance(a, tuple) and isinstance(b, tuple) and a and b and a[0] == 'iter' and b[0] == 'iter':
            if op in ('==', '!='):
                return 1 if ((a[2] == b[2]) == (op == '==')) else 0
        if isinstance(a, Ord) or isinstance(b, Ord):
            if isinstance(a, Ord) and isinstance(b, Ord) and a.idx == b.idx and a.side != b.side and op in ('<', '>', '<=', '>=', '==', '!='):
                o = self.ordering[a.idx]          # relation of side 'a' to side 'b'
                if a.side == 'b':
                    o = {'<': '>', '>': '<', '=': '='}[o]
                return 1 if {'<': o == '<', '>': o == '>', '<=': o in '<=', '>=': o in '>=', '==': o == '=', '!=': o != '='}[op] else 0
            if isinstance(a, Ord) and isinstance(b, Ord) and a.idx == b.idx and a.side == b.side and op in ('<', '>', '<=', '>=', '==', '!='):
                return 1 if op in ('<=', '>=', '==') else 0
            raise Undecided('a component is used other than in a comparison with the same component of the other operand')
        if isinstance(a, float) or isinstance(b, float):
            if isinstance(a, (int, float)) and isinstance(b, (int, float)):
                fa, fb = float(a), float(b)
                if op in ('<', '>', '<=', '>=', '==', '!='):
                    return 1 if {'<': fa < fb, '>': fa > fb, '<=': fa <= fb, '>=': fa >= fb, '==': fa == fb, '!=': fa != fb}[op] else 0
                if op == '/' and fb == 0.0:
                    raise Undecided('floating division by zero')
                if op in ('+', '-', '*', '/'):
                    r_ = {'+': fa + fb, '-': fa - fb, '*': fa * fb, '/': fa / fb if fb else 0.0}[op]
                    return _f32(r_) if t == 'float' else r_
            raise Undecided('floating operator %s' % op)
        if not isinstance(a, int) or not isinstance(b, int):
            raise Undecided('operator %s on non-constants' % op)
        return self.arith(op, a, b, t, n)

    def arith(self, op, a, b, t, n):
        if op in ('<', '>', '<=', '>=', '==', '!='):
            return 1 if {'<': a < b, '>': a > b, '<=': a <= b, '>=': a >= b, '==': a == b, '!=': a != b}[op] else 0
        if op in ('<<', '>>'):
            info = int_type_info(t) or (64, False)
            if b < 0 or b >= info[0]:
                raise Fault('shift by %d of a %d-bit operand is undefined (%s)' % (b, info[0], loc_str(n).split('/')[-1]))
            return self.wrap(a << b if op == '<<' else a >> b, t)
        if op in ('/', '%'):
            if b == 0:
                raise Undecided('division by zero')
            q = abs(a) // abs(b) * (1 if (a < 0) == (b < 0) else -1)
            return self.wrap(q if op == '/' else a - q * b, t)
        r = {'+': a + b, '-': a - b, '*': a * b, '&': a & b, '|': a | b, '^': a ^ b}.get(op)
        if r is None:
            raise Undecided('operator %s' % op)
        return self.wrap(r, t)

    # ------------------------------------------------------------------ calls
    def callee(self, n):
        """declaration of the function a call node resolves to, looked up in the unit the node belongs to"""
        best = None
        for u in self.units:
            d = callee_decl(n, u)
            if d is None:
                continue
            if body_of(d) is not None or d.get('mangledName'):
                return d
            best = best or d
        return best

    def find_body(self, rd):
        if rd is None:
            return None
        for u in self.units:
            d = u.by_id.get(rd.get('id'))
            if d is not None and body_of(d) is not None:
                return d
        # declaration and definition are different nodes: match by mangled name
        mn = rd.get('mangledName')
        for u in self.units:
            for f in u.functions:
                if (mn and f.get('mangledName') == mn) or (not mn and f.get('name') == rd.get('name') and f.get('id') == rd.get('id')):
                    if body_of(f) is not None:
                        return f
        return None

    def call(self, n, env, depth):
        k = n.get('kind')
        name = call_name(n) or ''
        if k == 'CXXOperatorCallExpr':
            ks = kids(n)
            callee = ks[0]
            ops = ks[1:]
            if name == 'operator()':
                f = self.ev(ops[0], env, depth)
                args = [a for a in ops[1:]]
                if isinstance(f, Lam):
                    return self.call_lambda(f, args, env, depth)
                if isinstance(f, Thrower):
                    f.calls += 1
                    if f.etype is None:
                        return None
                    raise Thrown(n, 'the callback model throws %s' % f.etype, etype=f.etype)
                raise Undecided('call through a non-lambda object')
            obj = self.ev(ops[0], env, depth)
            if isinstance(obj, Str):
                if name == 'operator+=':
                    v = self.ev(ops[1], env, depth)
                    self.str_append(obj, v)
                    return obj
                if name == 'operator[]':
                    i = self.ev(ops[1], env, depth)
                    if isinstance(i, int) and 0 <= i <= len(obj.b):
                        return self.wrap(obj.b[i] if i < len(obj.b) else 0, dtype(n))
                    raise Undecided('string index')
                if name == 'operator=':
                    v = self.ev(ops[1], env, depth)
                    obj.b = bytearray(v.b if isinstance(v, Str) else v.cstr() if isinstance(v, Lit) else b'')
                    return obj
                if name in ('operator==', 'operator!='):
                    v = self.ev(ops[1], env, depth)
                    vb = bytes(v.b) if isinstance(v, Str) else v.cstr() if isinstance(v, Lit) else None
                    if vb is None:
                        raise Undecided('string comparison')
                    return 1 if ((bytes(obj.b) == vb) == (name == 'operator==')) else 0
                if name == 'operator+':
                    v = self.ev(ops[1], env, depth)
                    r = Str(obj.b)
                    self.str_append(r, v)
                    return r
            if isinstance(obj, JV) and name == 'operator=':
                v = self.ev(ops[1], env, depth)
                if isinstance(v, JV):
                    obj.kind, obj.val = v.kind, v.val
                    return obj
                raise Undecided('assignment to a JSON value')
            if isinstance(obj, MapL) and name == 'operator[]':
                kx = self.ev(ops[1], env, depth)
                kb = bytes(kx.b) if isinstance(kx, Str) else kx.cstr() if isinstance(kx, Lit) else kx if isinstance(kx, int) else None
                if kb is None:
                    raise Undecided('map key')
                if kb not in obj.d:
                    mt = dtype(n) or ''
                    obj.d[kb] = VecL() if mt.replace('const ', '').startswith(('std::vector<', 'std::deque<')) else Str() if 'basic_string' in mt else 0
                return obj.d[kb]
            if isinstance(obj, VecL) and name == 'operator[]':
                i = self.ev(ops[1], env, depth)
                if isinstance(i, int) and 0 <= i < len(obj.items):
                    return obj.items[i]
                raise Fault('vector index %r outside its %d elements' % (i, len(obj.items)))
            if isinstance(obj, tuple) and obj and obj[0] == 'viter':
                if name in ('operator*', 'operator->'):
                    if 0 <= obj[2] < len(obj[1].items):
                        return obj[1].items[obj[2]]
                    raise Fault('dereference of an iterator outside the container')
                if name in ('operator++', 'operator--'):
                    new = ('viter', obj[1], obj[2] + (1 if name == 'operator++' else -1))
                    self.assign(ops[0], new, env, depth)
                    return obj if len(ops) > 1 else new
                if name in ('operator!=', 'operator=='):
                    o2 = self.ev(ops[1], env, depth)
                    return 1 if ((obj[2] == o2[2]) == (name == 'operator==')) else 0
            if isinstance(obj, tuple) and obj and obj[0] == 'iter':
                if name == 'operator*':
                    return self.wrap(obj[1].b[obj[2]], dtype(n))
                if name == 'operator++':
                    new = ('iter', obj[1], obj[2] + 1)
                    self.assign(ops[0], new, env, depth)
                    return new
                if name in ('operator!=', 'operator=='):
                    o2 = self.ev(ops[1], env, depth)
                    return 1 if ((obj[2] == o2[2]) == (name == 'operator==')) else 0
            if isinstance(obj, Lit) and name == 'operator+' and len(ops) == 2:
                v = self.ev(ops[1], env, depth)
                if isinstance(v, Str):
                    return Str(obj.cstr() + bytes(v.b))
            raise Undecided('operator call %s' % name)
        if k == 'CXXMemberCallExpr':
            objn = member_call_object(n)
            args = call_args(n)
            m = strip(kids(n)[0])
            if objn is not None:
                try:
                    vobj = self.ev(objn, env, depth)
                except Undecided:
                    vobj = None
                if isinstance(vobj, Vec):
                    if name == 'at' and len(args) == 1:
                        i_ = self.ev(args[0], env, depth)
                        if isinstance(i_, int) and 0 <= i_ < len(vobj.fields):
                            return Ord(i_, vobj.side)
                        raise Fault('at(%r) is outside the %d components' % (i_, len(vobj.fields)))
                    d = self.callee(n)
                    fd = self.find_body(d) if d else None
                    if fd is not None and depth < self.max_depth:
                        frame = self.bind(params_of(fd), args, env, depth)
                        frame['__this__'] = vobj
                        try:
                            self.run([body_of(fd)], frame, depth + 1)
                        except _Return as r:
                            return r.v
                        return None
            if objn is not None and not is_this(objn):
                obj = self.ev(objn, env, depth)
                if isinstance(obj, Str):
                    return self.str_method(obj, name, args, env, depth, n)
                if isinstance(obj, Heap) and name in ('get', 'release'):
                    return obj
                if isinstance(obj, JV):
                    vals = [self.ev(a, env, depth) for a in args if a.get('kind') != 'CXXDefaultArgExpr']
                    if name.startswith('is_'):
                        kinds = {'is_null': ('null',), 'is_bool': ('bool',), 'is_int': ('int',), 'is_float': ('float',), 'is_string': ('str',), 'is_list': ('list',), 'is_dict': ('dict',)}.get(name)
                        if kinds:
                            return 1 if obj.kind in kinds else 0
                    if name == 'as_string' and obj.kind == 'str':
                        return Str(obj.val)
                    if name == 'emplace_back' and obj.kind == 'list' and len(vals) == 1 and isinstance(vals[0], JV):
                        obj.val.append(vals[0])
                        return vals[0]
                    if name == 'emplace' and obj.kind == 'dict' and len(vals) == 2 and isinstance(vals[0], (Str, Lit)) and isinstance(vals[1], JV):
                        kb = bytes(vals[0].b) if isinstance(vals[0], Str) else vals[0].cstr()
                        obj.val.setdefault(kb, vals[1])          # unordered_map::emplace keeps the first entry of a key
                        return None
                    if name in ('emplace_back', 'emplace'):
                        raise Thrown(n, 'JSON::%s on a value of kind %s' % (name, obj.kind), etype='phosg::JSON::type_error')
                    raise Undecided('JSON::%s' % name)
                if isinstance(obj, Rec) and getattr(obj, 'cls', None):
                    d = self.callee(n)
                    fd = self.find_body(d) if d else None
                    if fd is not None and depth < self.max_depth:
                        frame = self.bind(params_of(fd), args, env, depth)
                        frame['__this__'] = obj
                        try:
                            self.run([body_of(fd)], frame, depth + 1)
                        except _Return as r:
                            v = r.v
                            rt = (fd.get('type', {}).get('qualType') or '').split('(')[0].strip()
                            return self.wrap(v, rt) if isinstance(v, int) and int_type_info(rt) else v
                        return None
                if isinstance(obj, SW):
                    vals = [self.ev(a, env, depth) for a in args if a.get('kind') != 'CXXDefaultArgExpr']
                    mput = re.match(r'^(p?)put_([us])(\d+)([bl]?)$', name)
                    if mput:
                        pos = vals[0] if mput.group(1) else None
                        val = vals[-1]
                        nb = int(mput.group(3)) // 8
                        if not isinstance(val, int) or (pos is not None and not isinstance(pos, int)):
                            raise Undecided('StringWriter::%s operand' % name)
                        raw = (val & ((1 << (8 * nb)) - 1)).to_bytes(nb, 'big' if mput.group(4) == 'b' else 'little')
                        if pos is None:
                            obj.s.b += raw
                        else:
                            if pos + nb > len(obj.s.b):
                                obj.s.b += bytes(pos + nb - len(obj.s.b))
                            obj.s.b[pos:pos + nb] = raw
                        return None
                    if name == 'write' and len(vals) == 2 and isinstance(vals[1], int):
                        obj.s.b += self.mem_bytes(vals[0], vals[1]) if vals[1] else b''
                        return None
                    if name == 'write' and len(vals) == 1 and isinstance(vals[0], (Str, Lit)):
                        obj.s.b += bytes(vals[0].b) if isinstance(vals[0], Str) else vals[0].cstr()
                        return None
                    if name == 'extend_to' and len(vals) in (1, 2) and isinstance(vals[0], int):
                        if len(obj.s.b) < vals[0]:
                            obj.s.b += bytes([(vals[1] if len(vals) == 2 else 0) & 0xFF]) * (vals[0] - len(obj.s.b))
                        return None
                    if name == 'extend_by' and len(vals) in (1, 2) and isinstance(vals[0], int):
                        obj.s.b += bytes([(vals[1] if len(vals) == 2 else 0) & 0xFF]) * vals[0]
                        return None
                    if name == 'size':
                        return len(obj.s.b)
                    if name == 'str':
                        return obj.s
                    if name == 'reset':
                        obj.s.b = bytearray()
                        return None
                    raise Undecided('StringWriter::%s' % name)
                if isinstance(obj, tuple) and obj and obj[0] == 'exc' and name == 'what':
                    return Lit(b'what\0')
                if isinstance(obj, VecL):
                    vals = [self.ev(a, env, depth) for a in args if a.get('kind') != 'CXXDefaultArgExpr']
                    if name in ('push_back', 'emplace_back') and len(vals) == 1:
                        v_ = vals[0]
                        obj.items.append(Str(v_.b) if isinstance(v_, Str) else Str(v_.cstr()) if isinstance(v_, Lit) and 'basic_string' in (dtype(n) or '') + (dtype(objn) or '') else v_)
                        return obj.items[-1]
                    if name == 'emplace_back' and len(vals) == 2 and 'basic_string' in (dtype(objn) or '') and isinstance(vals[0], int) and isinstance(vals[1], int):
                        obj.items.append(Str(bytes([vals[1] & 0xFF]) * vals[0]))
                        return obj.items[-1]
                    if name == 'emplace_back' and len(vals) in (2, 3) and 'basic_string' in (dtype(objn) or '') and isinstance(vals[0], Str) and all(isinstance(v_, int) for v_ in vals[1:]):
                        # string(const string&, pos[, n]): the substring constructor
                        if vals[1] > len(vals[0].b):
                            raise Thrown(n, 'substring constructor position past the end (out_of_range)')
                        cnt_ = vals[2] if len(vals) == 3 else None
                        obj.items.append(Str(vals[0].b[vals[1]:] if cnt_ is None or cnt_ >= (1 << 63) else vals[0].b[vals[1]:vals[1] + cnt_]))
                        return obj.items[-1]
                    if name == 'emplace_back' and not vals and 'basic_string' in (dtype(objn) or ''):
                        obj.items.append(Str())
                        return obj.items[-1]
                    if name == 'pop_back':
                        if not obj.items:
                            raise Fault('pop_back on an empty vector')
                        obj.items.pop()
                        return None
                    if name in ('back', 'front'):
                        if not obj.items:
                            raise Fault('%s() of an empty vector' % name)
                        v_ = obj.items[-1 if name == 'back' else 0]
                        return self.wrap(v_, dtype(n)) if isinstance(v_, int) else v_
                    if name == 'size':
                        return len(obj.items)
                    if name == 'empty':
                        return 1 if not obj.items else 0
                    if name == 'clear':
                        obj.items = []
                        return None
                    if name == 'at' and len(vals) == 1 and isinstance(vals[0], int):
                        if 0 <= vals[0] < len(obj.items):
                            return obj.items[vals[0]]
                        raise Thrown(n, 'vector::at out of range')
                    if name in ('reserve', 'shrink_to_fit'):
                        return None
                    if name in ('begin', 'cbegin'):
                        return ('viter', obj, 0)
                    if name in ('end', 'cend'):
                        return ('viter', obj, len(obj.items))
                    raise Undecided('std::vector::%s' % name)
                if isinstance(obj, Lam) and name == 'operator()':
                    return self.call_lambda(obj, args, env, depth)
                if name.startswith('operator ') and isinstance(obj, (int, Lit, Str)):
                    return obj          # conversion operator of a wrapper evaluated to its value
            d = self.callee(n)
            fd = self.find_body(d) if d else None
            if fd is not None and depth < self.max_depth and (objn is None or is_this(objn)):
                return self.call_function(fd, args, env, depth)
            raise Undecided('member call %s' % name)
        # plain CallExpr
        args = call_args(n)
        if name in CTYPE:
            v = self.ev(args[0], env, depth)
            if not isinstance(v, int):
                raise Undecided('ctype of a non-constant')
            return 1 if CTYPE[name](v if 0 <= v <= 255 else -1) else 0
        if name in ('toupper', 'tolower') and len(args) == 1:
            v = self.ev(args[0], env, depth)
            if isinstance(v, int):
                if name == 'toupper':
                    return v - 32 if 97 <= v <= 122 else v
                return v + 32 if 65 <= v <= 90 else v
        if name in ('min', 'max') and len(args) == 2:
            a, b = self.ev(args[0], env, depth), self.ev(args[1], env, depth)
            if isinstance(a, int) and isinstance(b, int):
                return min(a, b) if name == 'min' else max(a, b)
        if name in ('move', 'forward', 'as_const') and len(args) == 1:
            return self.ev(args[0], env, depth)
        if name == 'string_printf':
            fmt = self.ev(args[0], env, depth)
            if not isinstance(fmt, Lit):
                raise Undecided('non-literal format')
            vals = []
            for a in args[1:]:
                v = self.ev(a, env, depth)
                vals.append(v)
            return Str(c_printf(fmt.cstr(), vals))
        if name in ('stoull', 'stoul', 'stoll', 'stol', 'stoi') and len([a for a in args if a.get('kind') != 'CXXDefaultArgExpr']) == 1:
            v = self.ev(args[0], env, depth)
            if isinstance(v, (Str, Lit)):
                txt = (bytes(v.b) if isinstance(v, Str) else v.cstr()).lstrip(b' \t\n\r\v\f')
                import re as _re
                m_ = _re.match(rb'[+-]?[0-9]+', txt)
                if not m_:
                    raise Thrown(n, '%s of text without digits (invalid_argument)' % name)
                val = int(m_.group(0))
                bits = 32 if name == 'stoi' else 64
                if name in ('stoull', 'stoul'):
                    if abs(val) >= 1 << 64:
                        raise Thrown(n, '%s out of range' % name)
                    return val & ((1 << 64) - 1)
                if not -(1 << (bits - 1)) <= val < (1 << (bits - 1)):
                    raise Thrown(n, '%s out of range' % name)
                return val
        if name == 'malloc' and len(args) == 1:
            v = self.ev(args[0], env, depth)
            if isinstance(v, int):
                self.allocs = getattr(self, 'allocs', []) + [v]
                return Heap(v)
        if name in ('freadx', 'fread') and len(args) >= 3:
            st = self.ev(args[0], env, depth) if name == 'freadx' else None
            if isinstance(st, Stream):
                dst = self.ev(args[1], env, depth)
                cnt = self.ev(args[2], env, depth)
                if not isinstance(cnt, int):
                    raise Undecided('freadx size')
                if isinstance(dst, Heap) and cnt > dst.size:
                    raise Fault('freadx stores %d bytes into a block of %d bytes' % (cnt, dst.size))
                if st.pos + cnt > len(st.data):
                    raise Thrown(n, 'freadx needs %d bytes, the file has %d left' % (cnt, len(st.data) - st.pos))
                st.pos += cnt
                self.reads = getattr(self, 'reads', []) + [cnt]
                return None
        if name in ('dict', 'list') and not args and 'JSON' in (dtype(n) or qtype(n) or ''):
            return JV('dict', {}) if name == 'dict' else JV('list', [])
        if name == 'memcmp' and len(args) == 3:
            cnt = self.ev(args[2], env, depth)
            if isinstance(cnt, int):
                a_ = self.mem_bytes(self.ev(args[0], env, depth), cnt) if cnt else b''
                b_ = self.mem_bytes(self.ev(args[1], env, depth), cnt) if cnt else b''
                return (a_ > b_) - (a_ < b_)
        if name in ('memcpy', 'memmove') and len(args) == 3:
            cnt = self.ev(args[2], env, depth)
            if not isinstance(cnt, int):
                raise Undecided('memcpy size')
            src = self.addr_bytes_source(args[1], env, depth)
            data = self.mem_bytes(src, cnt)
            self.store_bytes(args[0], data, env, depth)
            return None
        if name == 'memset' and len(args) == 3:
            val, cnt = self.ev(args[1], env, depth), self.ev(args[2], env, depth)
            if isinstance(val, int) and isinstance(cnt, int):
                self.store_bytes(args[0], bytes([val & 0xFF]) * cnt, env, depth)
                return None
        if name in ('__builtin_bswap16', '__builtin_bswap32', '__builtin_bswap64') and len(args) == 1:
            v = self.ev(args[0], env, depth)
            if isinstance(v, int):
                nb = int(name[-2:]) // 8
                return int.from_bytes((v & ((1 << (8 * nb)) - 1)).to_bytes(nb, 'little'), 'big')
        if name == 'make_pair' and len(args) == 2:
            vs = [self.ev(a, env, depth) for a in args]
            return ('pair',) + tuple(Str(v.b) if isinstance(v, Str) else v for v in vs)
        if name == 'to_string' and len(args) == 1:
            v = self.ev(args[0], env, depth)
            if isinstance(v, int):
                return Str(str(v).encode())
        if name in ('stod', 'stof', 'strtod', 'atof') and len([a for a in args if a.get('kind') != 'CXXDefaultArgExpr']) == 1:
            v = self.ev(args[0], env, depth)
            if isinstance(v, (Str, Lit)):
                txt = (bytes(v.b) if isinstance(v, Str) else v.cstr()).lstrip(b' \t\n\r\v\f')
                import re as _re
                m_ = _re.match(rb'[+-]?(?:[0-9]+\.?[0-9]*|\.[0-9]+)(?:[eE][+-]?[0-9]+)?', txt)
                if not m_:
                    if name in ('stod', 'stof'):
                        raise Thrown(n, '%s of text without a number (invalid_argument)' % name)
                    return 0.0
                return float(m_.group(0))
        if name == 'fgets' and len(args) == 3:
            st = self.ev(args[2], env, depth)
            tgt = self.buf_target(args[0], env, depth)
            nmax = self.ev(args[1], env, depth)
            if isinstance(st, Stream) and tgt is not None and isinstance(nmax, int):
                buf, off = tgt
                if nmax <= 0:
                    return None
                st.ncalls += 1
                if st.fail_at is not None and st.ncalls - 1 == st.fail_at:
                    return None           # error: NULL, end-of-file indicator not set
                if off + nmax > len(buf.b):
                    raise Fault('fgets may store %d bytes at offset %d of a %d-byte buffer' % (nmax, off, len(buf.b)))
                if st.pos >= len(st.data):
                    st.eof = True
                    return None
                j = st.data.find(b'\n', st.pos, st.pos + nmax - 1)
                end = min(len(st.data), st.pos + nmax - 1) if j < 0 else j + 1
                chunk = st.data[st.pos:end]
                if end >= len(st.data) and j < 0 and len(chunk) < nmax - 1:
                    st.eof = True
                st.pos = end
                buf.b[off:off + len(chunk) + 1] = chunk + b'\0'
                return ('bufptr', buf, off)
        if name in ('gmtime_r',) and len(args) == 2:
            tp = self.ev(args[0], env, depth)
            tmr = self.ev(args[1], env, depth)
            tv = self.lookup(tp.env, tp.key) if isinstance(tp, Ref) else None
            tm = self.lookup(tmr.env, tmr.key) if isinstance(tmr, Ref) else None
            if isinstance(tv, int) and isinstance(tm, Rec):
                # civil-from-days (proleptic Gregorian), independent of the code under analysis
                days, rem = divmod(tv, 86400)
                z = days + 719468
                era = z // 146097
                doe = z - era * 146097
                yoe = (doe - doe // 1460 + doe // 36524 - doe // 146096) // 365
                y = yoe + era * 400
                doy = doe - (365 * yoe + yoe // 4 - yoe // 100)
                mp = (5 * doy + 2) // 153
                d = doy - (153 * mp + 2) // 5 + 1
                m = mp + 3 if mp < 10 else mp - 9
                y = y + 1 if m <= 2 else y
                leap = (y % 4 == 0 and y % 100 != 0) or y % 400 == 0
                yday = sum([31, 29 if leap else 28, 31, 30, 31, 30, 31, 31, 30, 31, 30, 31][:m - 1]) + d - 1
                tm.f.update({'tm_sec': rem % 60, 'tm_min': (rem // 60) % 60, 'tm_hour': rem // 3600, 'tm_mday': d, 'tm_mon': m - 1, 'tm_year': y - 1900,
                             'tm_wday': (days + 4) % 7, 'tm_yday': yday, 'tm_isdst': 0})
                return tmr
        if name == 'strftime' and len(args) == 4:
            tgt = self.buf_target(args[0], env, depth)
            cap = self.ev(args[1], env, depth)
            fmt = self.ev(args[2], env, depth)
            tmr = self.ev(args[3], env, depth)
            tm = self.lookup(tmr.env, tmr.key) if isinstance(tmr, Ref) else None
            if tgt is not None and isinstance(cap, int) and isinstance(fmt, Lit) and isinstance(tm, Rec) and 'tm_year' in tm.f:
                f = tm.f
                conv = {b'Y': '%d' % (f['tm_year'] + 1900), b'm': '%02d' % (f['tm_mon'] + 1), b'd': '%02d' % f['tm_mday'], b'H': '%02d' % f['tm_hour'],
                        b'M': '%02d' % f['tm_min'], b'S': '%02d' % f['tm_sec'], b'j': '%03d' % (f['tm_yday'] + 1), b'y': '%02d' % ((f['tm_year'] + 1900) % 100), b'%': '%'}
                conv[b'F'] = '%s-%s-%s' % (conv[b'Y'], conv[b'm'], conv[b'd'])
                conv[b'T'] = '%s:%s:%s' % (conv[b'H'], conv[b'M'], conv[b'S'])
                out = bytearray()
                raw = fmt.cstr()
                i_ = 0
                while i_ < len(raw):
                    if raw[i_:i_ + 1] == b'%' and i_ + 1 < len(raw):
                        c_ = raw[i_ + 1:i_ + 2]
                        if c_ not in conv:
                            raise Undecided('strftime conversion %%%s' % c_.decode('latin1'))
                        out += conv[c_].encode()
                        i_ += 2
                    else:
                        out += raw[i_:i_ + 1]
                        i_ += 1
                buf, off = tgt
                if off + cap > len(buf.b):
                    raise Fault('strftime may store %d bytes at offset %d of a %d-byte buffer' % (cap, off, len(buf.b)))
                if len(out) + 1 > cap:
                    return 0
                buf.b[off:off + len(out) + 1] = bytes(out) + b'\0'
                return len(out)
        if name == 'snprintf' and len(args) >= 3:
            tgt = self.buf_target(args[0], env, depth)
            cap = self.ev(args[1], env, depth)
            fmt = self.ev(args[2], env, depth)
            if tgt is not None and isinstance(cap, int) and isinstance(fmt, Lit):
                vals = [self.ev(a, env, depth) for a in args[3:]]
                out = c_printf(fmt.cstr(), vals)
                buf, off = tgt
                if off + cap > len(buf.b):
                    raise Fault('snprintf may store %d bytes at offset %d of a %d-byte buffer' % (cap, off, len(buf.b)))
                if cap > 0:
                    w_ = out[:cap - 1] + b'\0'
                    buf.b[off:off + len(w_)] = w_
                return len(out)
        if name in ('strtoull', 'strtoul', 'strtoll', 'strtol', 'strtod', 'strtof') and len(args) >= 2:
            sp = self.ev(args[0], env, depth)
            endp = self.ev(args[1], env, depth)
            base = self.ev(args[2], env, depth) if len(args) > 2 and name not in ('strtod', 'strtof') else 10
            if isinstance(sp, (Lit, Str)) or (isinstance(sp, tuple) and sp and sp[0] == 'bufptr'):
                raw = (sp.data[sp.off:] if isinstance(sp, Lit) and isinstance(sp.data, (bytes, bytearray)) else bytes(sp.b) if isinstance(sp, Str) else bytes(sp[1].b[sp[2]:]))
                raw = bytes(raw).split(b'\0')[0]
                i_ = 0
                while i_ < len(raw) and raw[i_:i_ + 1] in b' \t\n\v\f\r':
                    i_ += 1
                if name in ('strtod', 'strtof'):
                    m_ = re.match(rb'[+-]?(?:[0-9]+\.?[0-9]*|\.[0-9]+)(?:[eE][+-]?[0-9]+)?', raw[i_:])
                    val = float(m_.group(0)) if m_ else 0.0
                    if name == 'strtof':
                        val = _f32(val)
                    used = i_ + m_.end() if m_ else 0
                else:
                    j_ = i_
                    neg = False
                    if raw[j_:j_ + 1] in (b'+', b'-'):
                        neg = raw[j_:j_ + 1] == b'-'
                        j_ += 1
                    b_ = base
                    if b_ in (0, 16) and raw[j_:j_ + 2].lower() == b'0x' and re.match(rb'[0-9a-fA-F]', raw[j_ + 2:j_ + 3] or b'?'):
                        j_ += 2
                        b_ = 16
                    elif b_ == 0:
                        b_ = 8 if raw[j_:j_ + 1] == b'0' else 10
                    digs = b'0123456789abcdefghijklmnopqrstuvwxyz'[:b_]
                    k_ = j_
                    while k_ < len(raw) and raw[k_:k_ + 1].lower() in [digs[x_:x_ + 1] for x_ in range(len(digs))]:
                        k_ += 1
                    if k_ == j_:
                        val, used = 0, 0
                    else:
                        mag = int(raw[j_:k_], b_)
                        used = k_
                        if name in ('strtoull', 'strtoul'):
                            val = ((1 << 64) - 1) if mag >= 1 << 64 else ((-mag) & ((1 << 64) - 1) if neg else mag)
                        else:
                            v_ = -mag if neg else mag
                            val = max(-(1 << 63), min((1 << 63) - 1, v_))      # saturates (ERANGE)
                if isinstance(endp, Ref):
                    newp = Lit(sp.data, sp.off + used) if isinstance(sp, Lit) else ('bufptr', sp, used) if isinstance(sp, Str) else ('bufptr', sp[1], sp[2] + used)
                    self.store(endp.env, endp.key, newp)
                elif endp is not None:
                    raise Undecided('%s end pointer' % name)
                return val
        if name == '__errno_location' and not args:
            if not hasattr(self, 'genv'):
                self.genv = {'errno': 0}
            return Ref(self.genv, 'errno')
        if name == 'feof' and len(args) == 1:
            st = self.ev(args[0], env, depth)
            if isinstance(st, Stream):
                return 1 if getattr(st, 'eof', False) else 0
        if name == 'ferror' and len(args) == 1:
            return 0
        if name == 'fileno' and len(args) == 1:
            return 3
        if name in ('read', 'fread') and len(args) in (3, 4):
            st = self.ev(args[0] if name == 'read' else args[3], env, depth)
            if isinstance(st, Stream):
                tgt = self.buf_target(args[1] if name == 'read' else args[0], env, depth)
                cnt = self.ev(args[2], env, depth) if name == 'read' else None
                if name == 'fread':
                    a1, a2 = self.ev(args[1], env, depth), self.ev(args[2], env, depth)
                    cnt = a1 * a2 if isinstance(a1, int) and isinstance(a2, int) and a1 == 1 else None
                if tgt is None or not isinstance(cnt, int):
                    raise Undecided('%s into an unmodelled buffer' % name)
                buf, off = tgt
                if off + cnt > len(buf.b):
                    raise Fault('%s may store %d bytes at offset %d of a %d-byte buffer' % (name, cnt, off, len(buf.b)))
                st.ncalls += 1
                if name == 'read' and st.fail_at is not None and st.ncalls - 1 == st.fail_at:
                    if not hasattr(self, 'genv'):
                        self.genv = {'errno': 0}
                    self.genv['errno'] = getattr(st, 'fail_errno', 5)      # EIO unless the plan says EINTR (4)
                    return -1
                avail = len(st.data) - st.pos
                take = min(cnt, avail)
                if name == 'read':
                    plan = getattr(st, 'plan', None)
                    if plan and take > 0:
                        take = max(1, min(take, plan[st.nreads % len(plan)]))
                    st.nreads += 1
                if take < cnt and name == 'fread':
                    st.eof = True
                buf.b[off:off + take] = st.data[st.pos:st.pos + take]
                st.pos += take
                self.reads = getattr(self, 'reads', []) + [take]
                return take
        if name in ('fgetc', 'getc') and len(args) == 1:
            st = self.ev(args[0], env, depth)
            if isinstance(st, Stream):
                if st.pos >= len(st.data):
                    return -1
                st.pos += 1
                return st.data[st.pos - 1]
        if name == 'fgets' and len([a for a in args if a.get('kind') != 'CXXDefaultArgExpr']) == 1:
            st = self.ev(args[0], env, depth)
            if isinstance(st, Stream):
                j = st.data.find(b'\n', st.pos)
                end = len(st.data) if j < 0 else j + 1
                out = Str(st.data[st.pos:end])
                st.pos = end
                return out
        if name in ('strlen',) and len(args) == 1:
            v = self.ev(args[0], env, depth)
            if isinstance(v, Lit):
                return len(v.cstr())
            if isinstance(v, Str) and getattr(v, 'fixed', False):
                j_ = bytes(v.b).find(b'\0')
                if j_ < 0:
                    raise Fault('strlen of a character array without a terminator')
                return j_
        if name in ('strchr', 'memchr'):
            s = self.ev(args[0], env, depth)
            c = self.ev(args[1], env, depth)
            if isinstance(s, Lit) and isinstance(c, int):
                data = s.cstr() + b'\0' if name == 'strchr' else bytes(s.data[s.off:s.off + self.ev(args[2], env, depth)])
                j = data.find(bytes([c & 0xFF]))
                return None if j < 0 else Lit(s.data, s.off + j)
        if name == 'transform' and len(args) == 4:
            first, last = self.ev(args[0], env, depth), self.ev(args[1], env, depth)
            outn = strip(args[2])
            fn = self.ev(args[3], env, depth)
            sink = None
            if outn.get('kind') == 'CallExpr' and call_name(outn) == 'back_inserter':
                sink = self.ev(call_args(outn)[0], env, depth)
            items = None
            if isinstance(first, tuple) and first[0] == 'iter':
                items = list(first[1].b[first[2]:last[2]])
            elif isinstance(first, Lit) and isinstance(last, Lit) and first.data is last.data:
                items = [first.deref(i) for i in range(last.off - first.off)]
            if items is not None and isinstance(sink, Str):
                el_t = dtype(strip(args[0])) or ''
                signed_elems = 'unsigned' not in el_t and 'uint8' not in el_t
                for ch in items:
                    sch = ch - 256 if (ch >= 128 and signed_elems) else ch
                    r = self.apply(fn, [sch], env, depth)
                    if not isinstance(r, int):
                        raise Undecided('std::transform callback result')
                    sink.b.append(r & 0xFF)
                return None
            raise Undecided('std::transform form')
        if name in ('all_of', 'any_of', 'none_of') and len(args) == 3:
            first, last = self.ev(args[0], env, depth), self.ev(args[1], env, depth)
            fn = self.ev(args[2], env, depth)
            if isinstance(first, Lit) and isinstance(last, Lit):
                vals = [first.deref(i) for i in range(last.off - first.off)]
            elif isinstance(first, tuple) and first[0] == 'iter':
                vals = list(first[1].b[first[2]:last[2]])
            else:
                raise Undecided('algorithm over a non-constant range')
            rs = [self.truth(self.apply(fn, [v], env, depth)) for v in vals]
            return 1 if {'all_of': all(rs), 'any_of': any(rs), 'none_of': not any(rs)}[name] else 0
        d = self.callee(n)
        fd = self.find_body(d) if d else None
        if fd is None:
            callee = strip(kids(n)[0])
            rd = ref_decl(callee)
            if rd is not None:
                try:
                    f = self.lookup(env, rd['id'])
                    if isinstance(f, Lam):
                        return self.call_lambda(f, args, env, depth)
                except KeyError:
                    pass
                fd = self.find_body(rd)
        if fd is not None and depth < self.max_depth:
            return self.call_function(fd, args, env, depth)
        raise Undecided('call to %s' % name)

    def apply(self, fn, vals, env, depth):
        """call a lambda / function value with already evaluated arguments"""
        if isinstance(fn, Lam):
            return self.call_lambda(fn, vals, env, depth, evaluated=True)
        if isinstance(fn, tuple) and fn and fn[0] == 'fn':
            fd = self.find_body(fn[1])
            if fd is not None:
                return self.call_function(fd, vals, env, depth, evaluated=True)
        raise Undecided('callable value')

    def bind(self, params, args, env, depth, evaluated=False):
        frame = {}
        for i, p in enumerate(params):
            if i < len(args) and not (not evaluated and isinstance(args[i], dict) and args[i].get('kind') == 'CXXDefaultArgExpr' and not [c for c in kids(args[i]) if c.get('kind')]):
                a = args[i]
                if evaluated:
                    v = a
                else:
                    qt = qtype(p) or ''
                    s0 = strip(a)
                    if qt.rstrip().endswith('&') and 'const' not in qt and ref_decl(s0) is not None and s0.get('kind') == 'DeclRefExpr':
                        v = Ref(env, ref_decl(s0)['id'])
                        try:
                            self.lookup(env, ref_decl(s0)['id'])
                        except KeyError:
                            v = self.ev(a, env, depth)
                    elif qt.rstrip().endswith('&') and 'const' not in qt and s0.get('kind') == 'UnaryOperator' and s0.get('opcode') == '*':
                        # a reference bound to `*ptr`: the object the pointer designates
                        pv_ = self.ev(kids(s0)[0], env, depth)
                        v = Ref(pv_.env, pv_.key) if isinstance(pv_, Ref) else self.ev(a, env, depth)
                    else:
                        v = self.ev(a, env, depth)
                if isinstance(v, int):
                    v = self.wrap(v, dtype(p))
                frame[p['id']] = v
            else:
                dflt = [c for c in kids(p) if c.get('kind') and not c['kind'].endswith('Attr')]
                if dflt:
                    frame[p['id']] = self.ev(dflt[-1], {}, depth)
                else:
                    raise Undecided('missing argument for %s' % p.get('name'))
        return frame

    def call_function(self, fd, args, env, depth, evaluated=False):
        frame = self.bind(params_of(fd), args, env, depth, evaluated)
        try:
            frame.setdefault('__this__', self.lookup(env, '__this__'))
        except KeyError:
            pass
        if fd.get('kind') == 'CXXConstructorDecl':
            for ci in kids(fd):
                if ci.get('kind') != 'CXXCtorInitializer':
                    continue
                ie = [c for c in kids(ci) if c.get('kind')]
                if ci.get('delegatingInit') and ie and strip(ie[0]).get('kind') == 'CXXConstructExpr':
                    ce = strip(ie[0])
                    want_t = (ce.get('ctorType') or {}).get('qualType')
                    cls_name = fd.get('name')
                    tgt = None
                    for u_ in self.units:
                        for g_ in u_.functions:
                            if g_.get('kind') == 'CXXConstructorDecl' and g_.get('name') == cls_name and g_ is not fd and body_of(g_) is not None and (g_.get('type') or {}).get('qualType') == want_t:
                                tgt = g_
                    if tgt is None:
                        raise Undecided('delegated constructor not found')
                    self.call_function(tgt, [c for c in kids(ce) if c.get('kind') and c.get('kind') != 'CXXDefaultArgExpr'], frame, depth + 1)
                elif ci.get('anyInit') and ie:
                    this_ = frame.get('__this__')
                    if isinstance(this_, Rec):
                        this_.f[ci['anyInit'].get('name')] = self.ev(ie[0], frame, depth)
                    else:
                        raise Undecided('member initialiser')
                else:
                    raise Undecided('constructor initialiser')
        try:
            self.run([body_of(fd)], frame, depth + 1)
        except _Return as r:
            v = r.v
            rt = (fd.get('type', {}).get('qualType') or '').split('(')[0].strip()
            return self.wrap(v, rt) if isinstance(v, int) and int_type_info(rt) else v
        return None

    def call_lambda(self, lam, args, env, depth, evaluated=False):
        n = lam.node
        m = None
        for x in walk(n):
            if x.get('kind') == 'CXXMethodDecl' and x.get('name') == 'operator()':
                m = x
                break
        if m is None or body_of(m) is None:
            raise Undecided('lambda without a body in the dump')
        frame = self.bind(params_of(m), args, env, depth, evaluated)
        frame['__parent__'] = lam.env       # captures resolve in the defining frame
        try:
            self.run([body_of(m)], frame, depth + 1)
        except _Return as r:
            return r.v
        return None

    # ------------------------------------------------------------------ std::string
    def str_append(self, s, v):
        if isinstance(v, int):
            s.b.append(v & 0xFF)
        elif isinstance(v, Lit):
            s.b += v.cstr()
        elif isinstance(v, Str):
            s.b += v.b
        else:
            raise Undecided('append of a non-constant')

    def str_method(self, s, name, args, env, depth, n):
        vals = [self.ev(a, env, depth) for a in args if a.get('kind') != 'CXXDefaultArgExpr']
        if name == 'push_back':
            self.str_append(s, vals[0])
            return None
        if name == 'append':
            if len(vals) == 1:
                self.str_append(s, vals[0])
            elif len(vals) == 2 and isinstance(vals[0], Ref) and isinstance(vals[1], int):
                real = [a for a in args if a.get('kind') != 'CXXDefaultArgExpr']
                s.b += self.mem_bytes(self.addr_bytes_source(real[0], env, depth), vals[1])
            elif len(vals) == 2 and isinstance(vals[0], Lit) and isinstance(vals[1], int):
                s.b += bytes(vals[0].data[vals[0].off:vals[0].off + vals[1]])
            elif len(vals) == 2 and isinstance(vals[0], Str) and isinstance(vals[1], int) and getattr(vals[0], 'fixed', False):
                if vals[1] > len(vals[0].b):
                    raise Fault('append of %d bytes from a %d-byte array' % (vals[1], len(vals[0].b)))
                s.b += bytes(vals[0].b[:vals[1]])
            elif len(vals) == 2 and isinstance(vals[0], int) and isinstance(vals[1], int) and '*' not in (qtype(strip(args[0])) or ''):
                if vals[0] > (1 << 24):
                    raise Undecided('append of %d characters' % vals[0])
                s.b += bytes([vals[1] & 0xFF]) * vals[0]
            else:
                raise Undecided('append form')
            return s
        if name in ('size', 'length'):
            return len(s.b)
        if name == 'empty':
            return 1 if not s.b else 0
        if name in ('reserve', 'shrink_to_fit'):
            return None
        if name == 'clear':
            s.b = bytearray()
            return None
        if name == 'resize':
            k = vals[0]
            fill = vals[1] if len(vals) > 1 else 0
            s.b = s.b[:k] + bytearray([fill & 0xFF]) * max(0, k - len(s.b))
            return None
        if name in ('back', 'front'):
            if not s.b:
                raise Fault('%s() of an empty string' % name)
            return self.wrap(s.b[-1 if name == 'back' else 0], dtype(n))
        if name == 'at':
            if 0 <= vals[0] < len(s.b):
                return self.wrap(s.b[vals[0]], dtype(n))
            raise Thrown(n, 'std::out_of_range from at(%r) on a string of %d characters' % (vals[0], len(s.b)))
        if name in ('data', 'c_str'):
            return Lit(bytes(s.b) + b'\0')
        if name in ('begin', 'cbegin'):
            return ('iter', s, 0)
        if name in ('end', 'cend'):
            return ('iter', s, len(s.b))
        if name == 'pop_back':
            s.b = s.b[:-1]
            return None
        if name == 'insert' and len(vals) in (2, 3) and isinstance(vals[0], int):
            pos = vals[0]
            if pos > len(s.b):
                raise Thrown(n, 'std::out_of_range from insert')
            if len(vals) == 3 and isinstance(vals[1], int) and isinstance(vals[2], int):
                ins = bytes([vals[2] & 0xFF]) * vals[1]
            elif len(vals) == 2 and isinstance(vals[1], (Str, Lit)):
                ins = bytes(vals[1].b) if isinstance(vals[1], Str) else vals[1].cstr()
            else:
                raise Undecided('std::string::insert form')
            s.b[pos:pos] = ins
            return s
        if name == 'erase' and len(vals) in (1, 2) and all(isinstance(v_, int) for v_ in vals):
            pos = vals[0]
            if pos > len(s.b):
                raise Thrown(n, 'std::out_of_range from erase')
            cnt = vals[1] if len(vals) == 2 else len(s.b)
            del s.b[pos:pos + cnt]
            return s
        if name == 'substr':
            pos = vals[0] if vals else 0
            cnt = vals[1] if len(vals) > 1 else None
            if not isinstance(pos, int) or pos > len(s.b):
                raise Thrown(n, 'substr position past the end (out_of_range)')
            return Str(s.b[pos:] if cnt is None or cnt >= (1 << 63) else s.b[pos:pos + cnt])
        if name == 'compare':
            def _b(v):
                return bytes(v.b) if isinstance(v, Str) else v.cstr() if isinstance(v, Lit) else None
            if len(vals) == 1:
                a_, b_ = bytes(s.b), _b(vals[0])
            elif len(vals) == 3 and isinstance(vals[0], int) and isinstance(vals[1], int):
                if vals[0] > len(s.b):
                    raise Thrown(n, 'compare position past the end (out_of_range)')
                a_, b_ = bytes(s.b[vals[0]:vals[0] + vals[1]]), _b(vals[2])
            else:
                raise Undecided('compare form')
            if b_ is None:
                raise Undecided('compare operand')
            return (a_ > b_) - (a_ < b_)
        if name in ('find', 'rfind', 'find_first_of', 'find_last_of', 'find_first_not_of', 'find_last_not_of'):
            pat = vals[0]
            patb = bytes([pat & 0xFF]) if isinstance(pat, int) else bytes(pat.b) if isinstance(pat, Str) else pat.cstr() if isinstance(pat, Lit) else None
            start = None
            if len(vals) == 2 and isinstance(vals[1], int):
                start = vals[1]
            elif len(vals) == 3 and isinstance(vals[1], int) and isinstance(vals[2], int) and isinstance(pat, (Lit, Str)):
                start = vals[1]
                patb = patb[:vals[2]] if isinstance(pat, Str) else bytes(pat.data[pat.off:pat.off + vals[2]])
            if patb is None or len(vals) > 3 or (len(vals) > 1 and start is None) or (start is not None and name not in ('find', 'rfind')):
                raise Undecided('std::string::%s form' % name)
            hay = bytes(s.b)
            NPOS = (1 << 64) - 1
            if name == 'find':
                j = hay.find(patb, start) if start is not None and start <= len(hay) else (-1 if start is not None else hay.find(patb))
            elif name == 'rfind':
                j = hay.rfind(patb) if start is None else hay.rfind(patb, 0, start + len(patb))
            else:
                neg = 'not' in name
                idxs = [i for i, c in enumerate(hay) if (c in patb) != neg]
                j = -1 if not idxs else (idxs[0] if 'first' in name else idxs[-1])
            return NPOS if j < 0 else j
        if name in ('starts_with', 'ends_with'):
            pat = vals[0]
            patb = bytes([pat & 0xFF]) if isinstance(pat, int) else bytes(pat.b) if isinstance(pat, Str) else pat.cstr() if isinstance(pat, Lit) else None
            if patb is None:
                raise Undecided('std::string::%s form' % name)
            return 1 if (bytes(s.b).startswith(patb) if name == 'starts_with' else bytes(s.b).endswith(patb)) else 0
        raise Undecided('std::string::%s' % name)

    # ------------------------------------------------------------------ statements
    def run(self, stmts, env, depth=0):
        for s in stmts:
            if s is None:
                continue
            k = s.get('kind')
            if not k or k == 'NullStmt':
                continue
            if k == 'CompoundStmt':
                inner = {'__parent__': env}
                self.run(list(kids(s)), inner, depth)
                continue
            if k == 'DeclStmt':
                for vd in kids(s):
                    if vd.get('kind') != 'VarDecl':
                        continue
                    init = [c for c in kids(vd) if c.get('kind') and not c['kind'].endswith('Attr')]
                    t = dtype(vd) or ''
                    tn_ = t.replace('const ', '').replace('phosg::', '').strip()
                    if tn_ == 'JSON' and (not init or (strip(init[-1]).get('kind') == 'CXXConstructExpr' and not [c for c in kids(strip(init[-1])) if c.get('kind')])):
                        env[vd['id']] = JV()
                        continue
                    if init and tn_ != 'JSON' and tn_ != 'StringWriter' and self.record_kind(t) in ('class', 'struct') and strip(init[-1]).get('kind') == 'CXXConstructExpr' and [c for c in kids(strip(init[-1])) if c.get('kind')] and 'basic_string' not in t and not tn_.startswith('std::'):
                        ce_ = strip(init[-1])
                        obj_ = self.new_object(t)
                        ctor_ = self.find_ctor(tn_.split('::')[-1], (ce_.get('ctorType') or {}).get('qualType')) if obj_ is not None else None
                        if obj_ is not None and ctor_ is not None:
                            frame0 = {'__parent__': env, '__this__': obj_}
                            self.call_function(ctor_, [c for c in kids(ce_) if c.get('kind')], frame0, depth + 1)
                            env[vd['id']] = obj_
                            continue
                    m_arr = re.match(r'^(.+?)\[(\d+)\]$', t.replace('const ', ''))
                    if init and m_arr and strip(init[-1]).get('kind') == 'InitListExpr' and self.elem_info(m_arr.group(1)):
                        ei_ = self.elem_info(m_arr.group(1))
                        il_ = strip(init[-1])
                        els_ = [c for c in (il_.get('array_filler') and kids(il_) or kids(il_)) if c.get('kind') and c.get('kind') != 'ImplicitValueInitExpr']
                        vals_ = [self.ev(c, env, depth) for c in els_]
                        if not all(isinstance(x_, int) for x_ in vals_):
                            raise Undecided('array initialiser')
                        vals_ += [0] * (int(m_arr.group(2)) - len(vals_))
                        if ei_[0] == 1:
                            v = Str(bytes(x_ & 0xFF for x_ in vals_))
                            v.fixed = True
                        else:
                            v = Arr(vals_, ei_[0], ei_[2])
                    elif init and t.replace('phosg::', '').replace('const ', '') == 'StringWriter' and strip(init[-1]).get('kind') == 'CXXConstructExpr':
                        v = SW()
                    elif init and t.replace('const ', '').startswith(('std::vector<', 'std::deque<')) and strip(init[-1]).get('kind') == 'CXXConstructExpr' and not [c for c in kids(strip(init[-1])) if c.get('kind')]:
                        v = VecL()
                    elif init and t.replace('const ', '').startswith(('std::vector<', 'std::deque<')) and strip(init[-1]).get('kind') == 'CXXConstructExpr' and len([c for c in kids(strip(init[-1])) if c.get('kind') and c.get('kind') != 'CXXDefaultArgExpr']) == 2:
                        a_ = [self.ev(c, env, depth) for c in kids(strip(init[-1])) if c.get('kind') and c.get('kind') != 'CXXDefaultArgExpr']
                        if not isinstance(a_[0], int) or a_[0] > 1 << 20:
                            raise Undecided('vector(n, value) form')
                        v = VecL([Str(a_[1].b) if isinstance(a_[1], Str) else a_[1] for _ in range(a_[0])])
                    elif init and 'basic_string' not in t and self.record_kind(t) is not None and strip(init[-1]).get('kind') == 'CXXConstructExpr' and not [c for c in kids(strip(init[-1])) if c.get('kind')]:
                        v = Rec(self.record_kind(t) == 'union')
                    elif init:
                        v = self.ev(init[-1], env, depth)
                        if isinstance(v, int):
                            v = self.wrap(v, t)
                        if isinstance(v, Str) and strip(init[-1]).get('kind') not in ('CXXConstructExpr', 'CXXTemporaryObjectExpr', 'CallExpr', 'CXXMemberCallExpr', 'CXXOperatorCallExpr', 'ExprWithCleanups') and not (qtype(vd) or '').rstrip().endswith('&'):
                            v = Str(v.b)
                    elif t.replace('const ', '').startswith(('std::vector<', 'std::deque<')):
                        v = VecL()
                    elif re.match(r'^(.+?)\[(\d+)\]$', t) and self.elem_info(re.match(r'^(.+?)\[(\d+)\]$', t).group(1)) and self.elem_info(re.match(r'^(.+?)\[(\d+)\]$', t).group(1))[0] > 1:
                        ei_ = self.elem_info(re.match(r'^(.+?)\[(\d+)\]$', t).group(1))
                        v = Arr([0] * int(re.match(r'^(.+?)\[(\d+)\]$', t).group(2)), ei_[0], ei_[2])
                    elif t.replace('phosg::', '') == 'StringWriter':
                        v = SW()
                    elif re.match(r'^(?:unsigned |signed )?char\[\d+\]$', t) or re.match(r'^u?int8_t\[\d+\]$', t):
                        v = Str(bytes(int(re.search(r'\[(\d+)\]', t).group(1))))
                        v.fixed = True
                    elif 'basic_string' in t:
                        v = Str()
                    elif self.record_kind(t) is not None:
                        v = Rec(self.record_kind(t) == 'union')
                    else:
                        v = ('uninit',)
                    env[vd['id']] = v
                continue
            if k == 'IfStmt':
                ks = [c for c in kids(s)]
                cond, then, els = if_parts(s)
                # `if (init; cond)` is not used by the anchored code
                c = self.truth(self.ev(cond, env, depth))
                br = then if c else els
                if br is not None and br.get('kind'):
                    self.run([br], env, depth)
                continue
            if k == 'SwitchStmt':
                self.run_switch(s, env, depth)
                continue
            if k in ('ForStmt', 'WhileStmt', 'DoStmt', 'CXXForRangeStmt'):
                self.run_loop(s, env, depth)
                continue
            if k == 'ReturnStmt':
                ks = [c for c in kids(s) if c.get('kind')]
                raise _Return(self.ev(ks[0], env, depth) if ks else None)
            if k == 'BreakStmt':
                raise _Break()
            if k == 'ContinueStmt':
                raise _Continue()
            if k in ('CaseStmt', 'DefaultStmt'):
                # reached by fallthrough inside a switch body: execute the labelled statement
                sub = [c for c in kids(s) if c.get('kind')]
                self.run([sub[-1]] if sub else [], env, depth)
                continue
            if k == 'CXXTryStmt':
                ks_ = [c for c in kids(s) if c.get('kind')]
                try:
                    self.run([ks_[0]], env, depth)
                except Thrown as exc_:
                    handled = False
                    for h in ks_[1:]:
                        if h.get('kind') != 'CXXCatchStmt':
                            continue
                        hk = [c for c in kids(h) if c.get('kind')]
                        decl_ = hk[0] if hk and hk[0].get('kind') == 'VarDecl' else None
                        body_ = hk[-1] if hk else None
                        htype = ((dtype(decl_) or qtype(decl_) or '') if decl_ is not None else None)
                        if htype is None or self.exc_matches(exc_.etype, htype):
                            frame_ = {'__parent__': env, '__caught__': exc_}
                            if decl_ is not None and decl_.get('name'):
                                frame_[decl_['id']] = ('exc', exc_)
                            self.run([body_], frame_, depth)
                            handled = True
                            break
                    if not handled:
                        raise
                continue
            if k == 'CXXThrowExpr' or (k == 'ExprWithCleanups' and strip(s).get('kind') == 'CXXThrowExpr'):
                te = next((x for x in walk(s) if x.get('kind') == 'CXXThrowExpr'), None)
                if te is not None and not [c for c in kids(te) if c.get('kind')]:
                    cur = self.lookup_or(env, '__caught__')
                    if cur is not None:
                        raise cur              # `throw;` re-raises the exception being handled
                    raise Undecided('rethrow outside a handler')
                tt = None
                if te is not None and kids(te):
                    tt = (dtype(kids(te)[0]) or qtype(kids(te)[0]) or '').replace('const ', '').strip()
                raise Thrown(s, 'throw reached', etype=tt)
            if k == 'AttributedStmt':
                self.run([c for c in kids(s) if c.get('kind') and not c['kind'].endswith('Attr')], env, depth)
                continue
            self.ev(s, env, depth)

    def run_switch(self, s, env, depth):
        ks = [c for c in kids(s) if c.get('kind')]
        cond, body = ks[-2], ks[-1]
        v = self.ev(cond, env, depth)
        if not isinstance(v, int):
            raise Undecided('switch on a non-constant')
        stmts = list(kids(body)) if body.get('kind') == 'CompoundStmt' else [body]
        # flatten nested labels: `case A: case B: stmt`
        start = None
        default = None
        for i, st in enumerate(stmts):
            x = st
            while x is not None and x.get('kind') in ('CaseStmt', 'DefaultStmt'):
                if x.get('kind') == 'CaseStmt':
                    cv = self.ev(kids(x)[0], env, depth)
                    if cv == v and start is None:
                        start = i
                else:
                    default = i
                sub = [c for c in kids(x) if c.get('kind')]
                x = sub[-1] if sub else None
        if start is None:
            start = default
        if start is None:
            return
        inner = {'__parent__': env}
        try:
            first = True
            for st in stmts[start:]:
                x = st
                while x is not None and x.get('kind') in ('CaseStmt', 'DefaultStmt'):
                    sub = [c for c in kids(x) if c.get('kind')]
                    x = sub[-1] if sub else None
                if x is not None:
                    self.run([x], inner, depth)
        except _Break:
            pass

    def run_loop(self, s, env, depth):
        k = s.get('kind')
        inner = {'__parent__': env}
        if k == 'CXXForRangeStmt':
            var = None
            for x in walk(s):
                if x.get('kind') == 'VarDecl' and x.get('name') and not x['name'].startswith('__'):
                    var = x
                    break
            rng = None
            for x in kids(s):
                if x.get('kind') == 'DeclStmt':
                    for vd in kids(x):
                        if vd.get('kind') == 'VarDecl' and (vd.get('name') or '').startswith('__range') and kids(vd):
                            rng = self.ev(kids(vd)[-1], env, depth)
            if var is None or not isinstance(rng, (Str, Lit, VecL)):
                raise Undecided('range-for over a non-constant range')
            items = list(rng.items) if isinstance(rng, VecL) else list(rng.b) if isinstance(rng, Str) else list(rng.data[rng.off:])
            body = loop_body(s)
            for it in items:
                frame = {'__parent__': env, var['id']: self.wrap(it, dtype(var)) if isinstance(it, int) else it}
                try:
                    self.run([body], frame, depth)
                except _Continue:
                    continue
                except _Break:
                    break
            return
        if k == 'ForStmt':
            init, cv, cond, inc, body = for_parts(s)
            if init is not None and init.get('kind'):
                self.run([init], inner, depth)
        elif k == 'WhileStmt':
            cond, body = while_parts(s)
            inc = None
        else:
            ks = [c for c in kids(s) if c.get('kind')]
            body, cond = ks[0], ks[1]
            inc = None
        n = 0
        while True:
            if k != 'DoStmt' or n > 0:
                if cond is not None and cond.get('kind') and not self.truth(self.ev(cond, inner, depth)):
                    break
            n += 1
            if n > self.max_iter:
                raise Undecided('loop did not terminate within %d turns' % self.max_iter)
            try:
                self.run([body], inner, depth)
            except _Continue:
                pass
            except _Break:
                break
            if inc is not None and inc.get('kind'):
                self.ev(inc, inner, depth)

    # ------------------------------------------------------------------ entry
    def call_with(self, fd, values, this=None):
        """evaluate the function definition fd on constant argument values; returns its result"""
        env = {}
        if this is not None:
            env['__this__'] = this
        return self.call_function(fd, values, env, 0, evaluated=True)
