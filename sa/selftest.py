#!/usr/bin/env python3
"""setup / self-test: verifies the tool chain the checks need is present (offline)."""
import os, shutil, subprocess, sys
def main():
    for t in ('clang++',):
        if not shutil.which(t):
            print('missing tool', t); sys.exit(1)
    os.makedirs('/verif/.work/ast', exist_ok=True)
    os.makedirs('/verif/evidence/replay', exist_ok=True)
    print('setup ok')
main()
