"""E-POLY: integer expressions as polynomials over opaque atoms, and pointer expressions as
(base object, polynomial offset).  Single-assignment locals are expanded through their
initialisers, so hoisting a sub-expression into a named local, re-associating a product or
introducing a row pointer does not change what a rule sees."""
from ast_ import *
from path import ASSIGN_OPS

CASTS_ = ('CStyleCastExpr', 'CXXStaticCastExpr', 'CXXFunctionalCastExpr', 'CXXReinterpretCastExpr', 'CXXConstCastExpr', 'ImplicitCastExpr', 'ParenExpr', 'ExprWithCleanups', 'MaterializeTemporaryExpr', 'ConstantExpr')


def _strip(n):
    while n is not None and n.get('kind') in CASTS_ and kids(n):
        n = kids(n)[0]
    return n


def p_const(c):
    return {(): c} if c else {}


def p_atom(a):
    return {(a,): 1}


def p_add(a, b, sign=1):
    out = dict(a)
    for m, c in b.items():
        out[m] = out.get(m, 0) + sign * c
        if out[m] == 0:
            del out[m]
    return out


def p_mul(a, b):
    out = {}
    for m1, c1 in a.items():
        for m2, c2 in b.items():
            m = tuple(sorted(m1 + m2))
            out[m] = out.get(m, 0) + c1 * c2
            if out[m] == 0:
                del out[m]
    return out


def p_str(p):
    if not p:
        return '0'
    return ' + '.join(('%d' % c if not m else ('' if c == 1 else '%d*' % c) + '*'.join(m)) for m, c in sorted(p.items()))


def p_coeff(p, atom):
    """(coefficient polynomial of `atom`, remainder) when p is linear in atom, else None"""
    co, rest = {}, {}
    for m, c in p.items():
        n = m.count(atom)
        if n == 0:
            rest[m] = c
        elif n == 1:
            mm = list(m)
            mm.remove(atom)
            co[tuple(mm)] = co.get(tuple(mm), 0) + c
        else:
            return None
    return co, rest


class Poly:
    def __init__(self, func, unit=None, stepping=False):
        self.func = func
        self.unit = unit
        self.stepping = stepping      # pointers only ever advanced by `+=`/`++` are init + an opaque step count
        self.stepped = {}
        body = body_of(func)
        self.written = {}
        self.decls = {}
        for x in walk(body) if body is not None else ():
            k = x.get('kind')
            if k == 'VarDecl':
                self.decls[x['id']] = x
            if k in ('BinaryOperator', 'CompoundAssignOperator') and x.get('opcode') in ASSIGN_OPS:
                rd = ref_decl(x['inner'][0])
                if rd:
                    self.written[rd.get('id')] = self.written.get(rd.get('id'), 0) + 1
                    if x.get('opcode') == '+=':
                        self.stepped[rd.get('id')] = self.stepped.get(rd.get('id'), 0) + 1
            elif k == 'UnaryOperator' and x.get('opcode') in ('++', '--'):
                rd = ref_decl(x['inner'][0])
                if rd:
                    self.written[rd.get('id')] = self.written.get(rd.get('id'), 0) + 1
                    if x.get('opcode') == '++':
                        self.stepped[rd.get('id')] = self.stepped.get(rd.get('id'), 0) + 1

    def single(self, rd):
        """the initialiser of a local that is never reassigned (None otherwise)"""
        if rd is None or rd.get('kind') != 'VarDecl':
            return None
        d = self.decls.get(rd.get('id'))
        if d is None or self.written.get(d['id']) or not kids(d):
            return None
        if d.get('storageClass') == 'static' and 'const' not in (qtype(d) or ''):
            return None
        p = d.get('_p')
        pp = p.get('_p') if p is not None else None
        if pp is not None and pp.get('kind') in ('ForStmt',) and kids(pp) and kids(pp)[0] is p:
            return None      # a loop variable's init is not its value
        return kids(d)[-1]

    def poly(self, n, depth=0):
        n = _strip(n)
        if n is None or depth > 12:
            return p_atom('?')
        v = int_value(n)
        if v is not None:
            return p_const(v)
        k = n.get('kind')
        if k == 'BinaryOperator':
            op = n.get('opcode')
            if op in ('+', '-'):
                return p_add(self.poly(n['inner'][0], depth + 1), self.poly(n['inner'][1], depth + 1), 1 if op == '+' else -1)
            if op == '*':
                return p_mul(self.poly(n['inner'][0], depth + 1), self.poly(n['inner'][1], depth + 1))
            if op == '<<':
                s = int_value(n['inner'][1])
                if s is not None and 0 <= s < 63:
                    return p_mul(self.poly(n['inner'][0], depth + 1), p_const(1 << s))
        if k == 'UnaryOperator' and n.get('opcode') == '-':
            return p_mul(p_const(-1), self.poly(n['inner'][0], depth + 1))
        if k == 'UnaryOperator' and n.get('opcode') == '+':
            return self.poly(n['inner'][0], depth + 1)
        if k == 'ConditionalOperator':
            a, b = self.poly(n['inner'][1], depth + 1), self.poly(n['inner'][2], depth + 1)
            if a == b:
                return a
            # flag ? a : b with a boolean flag and constants is b + (a - b) * flag
            c0 = _strip(n['inner'][0])
            if list(a) in ([], [()]) and list(b) in ([], [()]) and (dtype(c0) or '').replace('const ', '') == 'bool' and c0.get('kind') in ('MemberExpr', 'DeclRefExpr'):
                return p_add(b, p_mul(p_const(a.get((), 0) - b.get((), 0)), p_atom(canon(c0))))
        if k == 'DeclRefExpr':
            init = self.single(ref_decl(n))
            if init is not None and int_type_info(dtype(n) or '') is not None:
                return self.poly(init, depth + 1)
        return p_atom(canon(n))

    def pointer(self, n, depth=0):
        """(base canonical string, offset polynomial in elements) of a pointer-valued expression"""
        n = _strip(n)
        if n is None or depth > 12:
            return None
        k = n.get('kind')
        if k == 'UnaryOperator' and n.get('opcode') == '&':
            return self.lvalue(n['inner'][0], depth + 1)
        if k == 'BinaryOperator' and n.get('opcode') in ('+', '-'):
            a, b = n['inner']
            ta = (qtype(_strip(a)) or '')
            if '*' in ta or '[' in ta:
                pa = self.pointer(a, depth + 1)
                if pa:
                    return pa[0], p_add(pa[1], self.poly(b, depth + 1), 1 if n['opcode'] == '+' else -1)
            elif n['opcode'] == '+':
                pb = self.pointer(b, depth + 1)
                if pb:
                    return pb[0], p_add(pb[1], self.poly(a, depth + 1))
            return None
        if k == 'DeclRefExpr' and self.stepping:
            rd = ref_decl(n)
            d = self.decls.get((rd or {}).get('id'))
            if d is not None and kids(d) and self.written.get(d['id']) and self.written.get(d['id']) == self.stepped.get(d['id']) and '*' in (qtype(d) or ''):
                r = self.pointer(kids(d)[-1], depth + 1)
                if r is not None:
                    return r[0], p_add(r[1], p_atom('@steps:' + (d.get('name') or '?')))
        if k == 'DeclRefExpr':
            init = self.single(ref_decl(n))
            # a pointer obtained from a call (an allocation, unique_ptr::get(), ...) is a base of its own
            if init is not None and not any(c.get('kind') in ('CallExpr', 'CXXMemberCallExpr', 'CXXConstructExpr', 'CXXNewExpr') for c in walk(init)):
                r = self.pointer(init, depth + 1)
                if r is not None:
                    return r
            return canon(n), {}
        if k in ('MemberExpr', 'CXXThisExpr'):
            return canon(n), {}
        if k == 'CXXMemberCallExpr' and call_name(n) in ('get', 'data', 'c_str'):
            o = member_call_object(n)
            r = self.pointer(o, depth + 1) if o is not None and (ref_decl(_strip(o)) or {}).get('kind') == 'VarDecl' else None
            return r if r is not None else (canon(n), {})
        return canon(n), {}

    def lvalue(self, n, depth=0):
        """(base, offset) of the object an lvalue expression designates"""
        n = _strip(n)
        if n is None:
            return None
        k = n.get('kind')
        if k == 'ArraySubscriptExpr':
            a, i = n['inner']
            pa = self.pointer(a, depth + 1)
            if pa:
                return pa[0], p_add(pa[1], self.poly(i, depth + 1))
            return None
        if k == 'UnaryOperator' and n.get('opcode') == '*':
            return self.pointer(n['inner'][0], depth + 1)
        return canon(n), {}
