"""E-PATH: facts that hold on every path reaching a site, derived from the
structured control flow of the type-checked AST (phosg has no goto; a function
containing one is refused)."""
from ast_ import *  # noqa


def _is_noreturn_call(s):
    s = strip(s)
    if s is None:
        return False
    if s.get('kind') in ('CallExpr', 'CXXMemberCallExpr'):
        d = callee_decl(s)
        if d and d.get('name') in ('abort', 'exit', '_exit', 'quick_exit', '__builtin_unreachable', '__assert_fail', 'terminate'):
            return True
        # a repository function whose body never completes normally (it only throws / aborts)
        if d is not None and d.get('id') not in _NORETURN_BUSY:
            cands = [d] + [e for e in DECLS.get(d.get('id'), ()) if e is not d]
            mn = d.get('mangledName')
            for e in cands:
                b = body_of(e)
                if b is None and mn:
                    continue
                if b is not None:
                    _NORETURN_BUSY.add(d.get('id'))
                    try:
                        nr = not falls_through(b) and not any(x.get('kind') == 'ReturnStmt' for x in walk(b))
                    finally:
                        _NORETURN_BUSY.discard(d.get('id'))
                    return nr
            if any(a.get('kind') in ('CXX11NoReturnAttr', 'NoReturnAttr') for e in cands for a in kids(e)):
                return True
    return False


_NORETURN_BUSY = set()


def falls_through(s):
    """False only when no path through s completes normally (conservative: True
    when unsure)."""
    if s is None or not s.get('kind'):
        return True
    k = s.get('kind')
    if k in ('ReturnStmt', 'BreakStmt', 'ContinueStmt', 'CXXThrowExpr'):
        return False
    if k in ('ExprWithCleanups', 'ParenExpr'):
        return falls_through(s['inner'][0]) if s.get('inner') else True
    if k == 'CompoundStmt':
        for c in kids(s):
            if not falls_through(c):
                return False
        return True
    if k == 'IfStmt':
        cond, then, els = if_parts(s)
        if els is None:
            return True
        return falls_through(then) or falls_through(els)
    if k == 'CXXTryStmt':
        parts = kids(s)
        return any(falls_through(p) for p in parts)
    if k == 'CXXCatchStmt':
        return falls_through(kids(s)[-1]) if kids(s) else True
    if k in ('CallExpr', 'CXXMemberCallExpr'):
        return not _is_noreturn_call(s)
    if k == 'AttributedStmt':
        return all(falls_through(c) for c in kids(s) if c.get('kind') and not c['kind'].endswith('Attr'))
    if k in ('ForStmt', 'WhileStmt'):
        # an infinite loop without break does not complete normally
        cond = for_parts(s)[2] if k == 'ForStmt' else while_parts(s)[0]
        infinite = (cond is None) or (int_value(cond) not in (None, 0))
        if infinite and not _has_break(loop_body(s)):
            return False
        return True
    return True


def _has_break(n):
    if n is None:
        return False
    stack = [n]
    while stack:
        x = stack.pop()
        k = x.get('kind')
        if k == 'BreakStmt':
            return True
        if k in ('ForStmt', 'WhileStmt', 'DoStmt', 'CXXForRangeStmt', 'SwitchStmt', 'LambdaExpr'):
            continue
        stack.extend(kids(x))
    return False


def if_parts(s):
    inner = list(kids(s))
    i = 0
    if s.get('hasInit'):
        i += 1
    if s.get('hasVar'):
        i += 1
    cond = inner[i] if len(inner) > i else None
    then = inner[i + 1] if len(inner) > i + 1 else None
    els = inner[i + 2] if len(inner) > i + 2 else None
    return cond, then, els


def _nz(n):
    return n if (n and n.get('kind')) else None


def for_parts(s):
    inner = list(kids(s))
    # [init, condvar, cond, inc, body]; missing parts are {}
    while len(inner) < 5:
        inner.append({})
    return _nz(inner[0]), _nz(inner[1]), _nz(inner[2]), _nz(inner[3]), _nz(inner[4])


def while_parts(s):
    inner = list(kids(s))
    if s.get('hasVar'):
        inner = inner[1:]
    return _nz(inner[0]), _nz(inner[1]) if len(inner) > 1 else None


def loop_body(s):
    k = s.get('kind')
    if k == 'ForStmt':
        return for_parts(s)[4]
    if k == 'WhileStmt':
        return while_parts(s)[1]
    if k == 'DoStmt':
        return kids(s)[0]
    if k == 'CXXForRangeStmt':
        return kids(s)[-1]
    return None


LOOPS = ('ForStmt', 'WhileStmt', 'DoStmt', 'CXXForRangeStmt')


# --------------------------------------------------------------------------
# variable keys

def var_key(n):
    """Key of an lvalue expression: decl id for locals/params, 'this.f' for
    fields of *this, 'K.f' for fields of other objects, None when opaque."""
    n = strip(n)
    if n is None:
        return None
    k = n.get('kind')
    if k == 'DeclRefExpr':
        rd = n.get('referencedDecl') or {}
        if rd.get('kind') in ('VarDecl', 'ParmVarDecl', 'BindingDecl', 'DecompositionDecl'):
            return rd.get('id')
        return None
    if k == 'CXXThisExpr':
        return 'this'
    if k == 'MemberExpr':
        if not n.get('inner'):
            return 'this.' + str(n.get('name'))
        b = var_key(n['inner'][0])
        if b is None:
            return None
        return b + '.' + str(n.get('name'))
    if k == 'UnaryOperator' and n.get('opcode') == '*':
        b = var_key(n['inner'][0])
        if b is None:
            return None
        if b == 'this':
            return 'this'
        return '*' + b
    if k == 'ArraySubscriptExpr':
        b = var_key(n['inner'][0])
        return None if b is None else b + '[]'
    return None


def mentioned_keys(n):
    """Keys whose later modification invalidates the truth of condition n.  For an
    embedded assignment `(v = expr) < end` the value compared is v's: only the
    left-hand side counts (expr has been consumed into v)."""
    out = set()
    stack = [n]
    while stack:
        x = stack.pop()
        k = x.get('kind')
        if k in ('BinaryOperator',) and x.get('opcode') == '=' and x.get('inner'):
            stack.append(x['inner'][0])
            continue
        if k in ('DeclRefExpr', 'MemberExpr'):
            v = var_key(x)
            if v:
                out.add(v)
        elif k == 'CXXThisExpr':
            out.add('this')
        stack.extend(kids(x))
    return out


ASSIGN_OPS = {'=', '+=', '-=', '*=', '/=', '%=', '<<=', '>>=', '&=', '|=', '^='}


def _is_const_type(t):
    if not t:
        return False
    t = t.strip()
    return t.startswith('const ') or t.endswith(' const') or ' const &' in t or 'const &' in t


STD_CONST_METHODS = {'size', 'length', 'empty', 'data', 'c_str', 'at', 'find', 'rfind', 'find_first_of', 'find_last_of', 'find_first_not_of', 'find_last_not_of',
                     'count', 'front', 'back', 'begin', 'end', 'cbegin', 'cend', 'rbegin', 'rend', 'substr', 'compare', 'starts_with', 'ends_with', 'capacity',
                     'get', 'load', 'index', 'has_value', 'value', 'lower_bound', 'upper_bound', 'equal_range', 'contains', 'first', 'second', 'what',
                     'operator[]', 'operator*', 'operator->', 'operator bool', 'joinable', 'str'}


def _method_is_const(m):
    """m: the MemberExpr naming the called method."""
    rid = m.get('referencedMemberDecl')
    if rid:
        for d in DECLS.get(rid, ()):
            if d.get('name') == m.get('name'):
                t = d.get('type', {}).get('qualType', '')
                t = t.replace(' noexcept', '').rstrip()
                return t.endswith(' const') or t.endswith(') const') or d.get('kind') == 'CXXConversionDecl' and 'const' in t
    obj = m['inner'][0] if m.get('inner') else None
    if obj is not None and _is_const_type(qtype(obj)):
        return True
    ot = dtype(obj) if obj is not None else ''
    if ot and ('std::' in ot) and m.get('name') in STD_CONST_METHODS:
        return True
    return False


_MW_CACHE = {}


def _member_writes(m, depth):
    """{'this.field', ...} a method of `this` may write (through itself and the same-object methods it
    calls), or None when its body is not available / it hands `this` out"""
    rid = m.get('referencedMemberDecl')
    if not rid or depth > 3:
        return None
    if rid in _MW_CACHE:
        return _MW_CACHE[rid]
    body = None
    for d in DECLS.get(rid, ()):
        if d.get('name') == m.get('name') and body_of(d) is not None:
            body = body_of(d)
    if body is None:
        # declaration and definition are different nodes: look for a definition of the same name / signature
        for d in DECLS.get(rid, ()):
            mn = d.get('mangledName')
            if mn:
                for lst in DECLS.values():
                    for e in lst:
                        if e.get('mangledName') == mn and body_of(e) is not None:
                            body = body_of(e)
                            break
                    if body is not None:
                        break
    if body is None:
        _MW_CACHE[rid] = None
        return None
    _MW_CACHE[rid] = set()      # recursion guard
    out = set()
    ok = True
    for x in walk(body):
        k = x.get('kind')
        if k in ('BinaryOperator', 'CompoundAssignOperator') and x.get('opcode') in ASSIGN_OPS:
            v = var_key(x['inner'][0])
            if v and v.startswith('this.'):
                out.add(v)
            elif v is None:
                ok = False
        elif k == 'UnaryOperator' and x.get('opcode') in ('++', '--'):
            v = var_key(x['inner'][0])
            if v and v.startswith('this.'):
                out.add(v)
        elif k == 'UnaryOperator' and x.get('opcode') == '&':
            v = var_key(x['inner'][0])
            if v and v.startswith('this.'):
                out.add(v)
                out.add(v + '.*')
        elif k == 'CXXMemberCallExpr':
            mm = strip(x['inner'][0])
            if mm.get('kind') == 'MemberExpr' and not _method_is_const(mm):
                obj = mm['inner'][0] if mm.get('inner') else None
                v = var_key(obj) if obj is not None else 'this'
                if v == 'this':
                    sub = _member_writes(mm, depth + 1)
                    if sub is None:
                        ok = False
                    else:
                        out |= sub
                elif v and v.startswith('this.'):
                    out.add(v)
                    out.add(v + '.*')
        elif k == 'CXXThisExpr':
            p_ = x.get('_p')
            if p_ is not None and p_.get('kind') not in ('MemberExpr', 'ImplicitCastExpr'):
                ok = False      # `this` escapes
    res = out if ok else None
    _MW_CACHE[rid] = res
    return res


def assigned_keys(n):
    """Keys that may be modified by executing n (over-approximation)."""
    out = set()
    if n is None:
        return out
    for x in walk(n):
        k = x.get('kind')
        if k in ('BinaryOperator', 'CompoundAssignOperator') and x.get('opcode') in ASSIGN_OPS:
            v = var_key(x['inner'][0])
            out.add(v or '?')
        elif k == 'UnaryOperator' and x.get('opcode') in ('++', '--'):
            v = var_key(x['inner'][0])
            out.add(v or '?')
        elif k == 'UnaryOperator' and x.get('opcode') == '&':
            v = var_key(x['inner'][0])
            if v and not _is_const_type(qtype(x['inner'][0])):
                out.add(v)
        elif k == 'CXXMemberCallExpr':
            m = strip(x['inner'][0])
            if m.get('kind') == 'MemberExpr':
                is_const = _method_is_const(m)
                if not is_const:
                    obj = m['inner'][0] if m.get('inner') else None
                    v = var_key(obj) if obj is not None else 'this'
                    if v == 'this':
                        # a non-const method of the same object whose body is known writes only the
                        # members it (transitively) assigns, not every member
                        w_ = _member_writes(m, 0)
                        if w_ is not None:
                            out |= w_
                            _args_may_modify(x['inner'][1:], out)
                            continue
                    if v:
                        out.add(v)
                        out.add(v + '.*')
            _args_may_modify(x['inner'][1:], out)
        elif k in ('CallExpr', 'CXXConstructExpr', 'CXXTemporaryObjectExpr'):
            args = x['inner'][1:] if k == 'CallExpr' else kids(x)
            _args_may_modify(args, out)
        elif k == 'CXXOperatorCallExpr':
            d = callee_decl(x)
            nm = d.get('name', '') if d else ''
            op = nm[len('operator'):]
            if op in ASSIGN_OPS or op in ('++', '--', '<<', '>>'):
                v = var_key(x['inner'][1]) if len(x['inner']) > 1 else None
                if v:
                    out.add(v)
                    out.add(v + '.*')
            if op in ('[]', '*', '->', '==', '!=', '<', '>', '<=', '>=', '<=>') and len(x['inner']) > 1 and 'std::' in (dtype(x['inner'][1]) or ''):
                # element access / comparison of a standard container does not modify the container
                # itself (a write THROUGH the returned reference is an assignment node of its own)
                _args_may_modify(x['inner'][2:], out)
                continue
            _args_may_modify(x['inner'][1:], out)
    return out


def _args_may_modify(args, out):
    for a in args:
        # an lvalue of non-const type passed without lvalue-to-rvalue conversion may
        # be bound to a non-const reference
        a1 = a
        while a1 is not None and a1.get('kind') in ('ParenExpr', 'ExprWithCleanups'):
            a1 = a1['inner'][0]
        if a1 is None:
            continue
        if a1.get('valueCategory') == 'lvalue' and a1.get('kind') in ('DeclRefExpr', 'MemberExpr', 'UnaryOperator', 'ArraySubscriptExpr'):
            if not _is_const_type(qtype(a1)):
                v = var_key(a1)
                if v:
                    out.add(v)
                    out.add(v + '.*')
                if a1.get('kind') == 'UnaryOperator' and a1.get('opcode') == '*' and is_this(a1['inner'][0]):
                    out.add('this')
                    out.add('this.*')
        if a1.get('kind') == 'CXXThisExpr' and not _is_const_type((qtype(a1) or '').replace('*', '').strip() + ' '):
            t = qtype(a1) or ''
            if not t.startswith('const '):
                out.add('this.*')


def killed_by(fact_keys, assigned):
    if not assigned:
        return False
    if '?' in assigned:
        return True
    for f in fact_keys:
        if f in assigned:
            return True
        # assigning an object kills facts about its fields; a non-const call on an
        # object ('obj.*') kills facts about its fields
        parts = f.split('.')
        for i in range(1, len(parts)):
            pre = '.'.join(parts[:i])
            if pre in assigned and pre != 'this':
                return True
            if pre + '.*' in assigned:
                return True
        if f + '.*' in assigned:
            return True
    return False


# --------------------------------------------------------------------------
# facts

class Fact:
    __slots__ = ('cond', 'pol', 'origin')

    def __init__(self, cond, pol, origin):
        self.cond, self.pol, self.origin = cond, pol, origin

    def __repr__(self):
        return '%s(%s)' % ('' if self.pol else 'not', canon(self.cond))


def check_no_goto(func):
    for x in walk(func):
        if x.get('kind') in ('GotoStmt', 'IndirectGotoStmt', 'LabelStmt'):
            raise AnalysisBroken('goto/label in %s: the structured path engine refuses this function' % func.get('name'))


def path_facts(site, stop=None, ignore_kills_of=()):
    """Conditions that hold (pol=True) or fail (pol=False) on every path reaching
    site, with facts invalidated by intervening assignments removed."""
    facts = []
    killed = set()
    c = site
    p = site.get('_p')

    ign = set(ignore_kills_of)

    def add(cond, pol, origin):
        if cond is None:
            return
        k2 = killed
        if ign:
            k2 = {k for k in killed if not any(k == i or str(k).startswith(str(i) + '.') for i in ign)}
        if not killed_by(mentioned_keys(cond), k2):
            facts.append(Fact(cond, pol, origin))
            return
        # an assignment invalidated part of the condition: keep the conjuncts it does not touch
        # (`while (n < 4 && in[0] == '#') { n++; <here in[0] == '#' still holds> }`)
        c0 = strip(cond)
        if c0 is not None and c0.get('kind') == 'BinaryOperator' and ((c0.get('opcode') == '&&' and pol) or (c0.get('opcode') == '||' and not pol)):
            # the right operand of a short-circuit may itself assign: only split when it does not
            if not assigned_keys(c0['inner'][1]) and not assigned_keys(c0['inner'][0]):
                add(c0['inner'][0], pol, origin)
                add(c0['inner'][1], pol, origin)
        elif c0 is not None and c0.get('kind') == 'UnaryOperator' and c0.get('opcode') == '!':
            add(c0['inner'][0], not pol, origin)

    while p is not None and p is not stop:
        k = p.get('kind')
        if k in FUNC_KINDS or k == 'LambdaExpr':
            break
        if k == 'CompoundStmt':
            sibs = list(kids(p))
            idx = next((i for i, s in enumerate(sibs) if s is c), None)
            if idx is not None:
                for s in reversed(sibs[:idx]):
                    if s.get('kind') == 'IfStmt':
                        cond, then, els = if_parts(s)
                        tf = falls_through(then)
                        ef = falls_through(els) if els is not None else True
                        # assignments inside a branch that cannot complete do not reach us
                        live = set(assigned_keys(cond))
                        if tf:
                            live |= assigned_keys(then)
                        if ef and els is not None:
                            live |= assigned_keys(els)
                        killed |= live
                        if not tf and ef:
                            add(cond, False, s)
                        elif tf and not ef:
                            add(cond, True, s)
                    else:
                        killed |= assigned_keys(s)
        elif k == 'IfStmt':
            cond, then, els = if_parts(p)
            if c is then:
                add(cond, True, p)
            elif c is els:
                add(cond, False, p)
            if c is not cond:
                killed |= assigned_keys(cond)
                if p.get('hasInit'):
                    killed |= assigned_keys(kids(p)[0])
        elif k == 'WhileStmt':
            cond, body = while_parts(p)
            if c is body:
                add(cond, True, p)
            killed |= assigned_keys(p)
        elif k == 'ForStmt':
            init, cv, cond, inc, body = for_parts(p)
            if c is body:
                add(cond, True, p)
            killed |= assigned_keys(cond) | assigned_keys(inc) | assigned_keys(body)
            if c is not init:
                killed |= assigned_keys(init)
        elif k in ('DoStmt', 'CXXForRangeStmt'):
            killed |= assigned_keys(p)
        elif k == 'ConditionalOperator':
            inner = kids(p)
            if c is inner[1]:
                add(inner[0], True, p)
            elif c is inner[2]:
                add(inner[0], False, p)
        elif k == 'BinaryOperator' and p.get('opcode') in ('&&', '||'):
            inner = kids(p)
            if c is inner[1]:
                add(inner[0], p.get('opcode') == '&&', p)
                killed |= assigned_keys(inner[0])
        elif k == 'CXXCatchStmt':
            t = p.get('_p')
            if t is not None and kids(t):
                killed |= assigned_keys(kids(t)[0])
        elif k in ('SwitchStmt',):
            killed |= assigned_keys(p)
        c = p
        p = p.get('_p')
    return facts


def atoms(facts):
    """Decompose facts into atomic (cond, pol) pairs through !, && (when true),
    || (when false)."""
    out = []
    seen = set()
    stack = [(f.cond, f.pol) for f in facts]
    while stack:
        n, pol = stack.pop()
        n = strip(n)
        if n is None:
            continue
        k = n.get('kind')
        if k == 'UnaryOperator' and n.get('opcode') == '!':
            stack.append((n['inner'][0], not pol))
            continue
        if k == 'BinaryOperator' and n.get('opcode') == '&&' and pol:
            stack.append((n['inner'][0], True))
            stack.append((n['inner'][1], True))
            continue
        if k == 'BinaryOperator' and n.get('opcode') == '||' and not pol:
            stack.append((n['inner'][0], False))
            stack.append((n['inner'][1], False))
            continue
        if k == 'DeclRefExpr':
            # a named boolean that is assigned only by its declaration stands for its initialiser
            # (`const bool in_bounds = a && b; if (!in_bounds) throw ...`)
            rd = n.get('referencedDecl') or {}
            if rd.get('kind') == 'VarDecl' and ((rd.get('type') or {}).get('qualType') or '').replace('const ', '') == 'bool' and rd.get('id') not in seen:
                init = _single_assignment_init(rd)
                if init is not None:
                    seen.add(rd.get('id'))
                    stack.append((init, pol))   # the named atom itself is kept as well (below)
        out.append((n, pol))
    return out


_SA_CACHE = {}


def _single_assignment_init(rd):
    key = (rd.get('id'), rd.get('name'))
    if key in _SA_CACHE:
        return _SA_CACHE[key]
    res = None
    for d in DECLS.get(rd.get('id'), ()):
        if d.get('kind') == 'VarDecl' and d.get('name') == rd.get('name') and kids(d):
            f = enclosing_function(d)
            if f is None:
                continue
            writes = 0
            for x in walk(body_of(f)):
                if x.get('kind') in ('BinaryOperator', 'CompoundAssignOperator') and x.get('opcode') in ASSIGN_OPS and (ref_decl(x['inner'][0]) or {}).get('id') == rd.get('id'):
                    writes += 1
                if x.get('kind') == 'UnaryOperator' and x.get('opcode') == '&' and (ref_decl(x['inner'][0]) or {}).get('id') == rd.get('id'):
                    writes += 1
            if writes == 0:
                res = kids(d)[-1]
            break
    _SA_CACHE[key] = res
    return res


NEG = {'<': '>=', '<=': '>', '>': '<=', '>=': '<', '==': '!=', '!=': '=='}
FLIP = {'<': '>', '<=': '>=', '>': '<', '>=': '<=', '==': '==', '!=': '!='}


def relation(n, pol=True):
    """Normalised comparison (lhs_node, op, rhs_node) of an atom under polarity,
    or None when the atom is not a comparison."""
    n = strip(n)
    if n is None:
        return None
    if n.get('kind') == 'BinaryOperator' and n.get('opcode') in NEG:
        op = n['opcode']
        if not pol:
            op = NEG[op]
        return (n['inner'][0], op, n['inner'][1])
    if n.get('kind') == 'CXXOperatorCallExpr':
        d = callee_decl(n)
        nm = d.get('name', '') if d else ''
        op = nm[len('operator'):]
        if op in NEG and len(n['inner']) == 3:
            if not pol:
                op = NEG[op]
            return (n['inner'][1], op, n['inner'][2])
    return None


def relations(site, stop=None):
    """All normalised comparison atoms (canon strings) holding at site:
    list of (lhs, op, rhs, lhs_node, rhs_node)."""
    out = []
    for n, pol in atoms(path_facts(site, stop)):
        r = relation(n, pol)
        if r:
            out.append((canon(r[0]), r[1], canon(r[2]), r[0], r[2]))
    return out


def preceding_statements(site):
    """Statements that execute before site on every path, nearest first, within
    the enclosing function (straight-line predecessors at each nesting level)."""
    out = []
    c = site
    p = site.get('_p')
    while p is not None:
        k = p.get('kind')
        if k in FUNC_KINDS or k == 'LambdaExpr':
            break
        if k == 'CompoundStmt':
            sibs = list(kids(p))
            idx = next((i for i, s in enumerate(sibs) if s is c), None)
            if idx is not None:
                out.extend(reversed(sibs[:idx]))
        c = p
        p = p.get('_p')
    return out


def containing_statement(site):
    """The statement of the nearest enclosing CompoundStmt that contains site."""
    c = site
    p = site.get('_p')
    while p is not None and p.get('kind') != 'CompoundStmt':
        c = p
        p = p.get('_p')
    return c


def eval3(cond, assume):
    """Three-valued evaluation of a condition under assumptions.
    assume: callable(node) -> True/False/None for atoms.  Returns True/False/None."""
    n = strip(cond)
    if n is None:
        return None
    v = assume(n)
    if v is not None:
        return v
    k = n.get('kind')
    if k == 'UnaryOperator' and n.get('opcode') == '!':
        r = eval3(n['inner'][0], assume)
        return None if r is None else (not r)
    if k == 'BinaryOperator' and n.get('opcode') == '&&':
        a = eval3(n['inner'][0], assume)
        b = eval3(n['inner'][1], assume)
        if a is False or b is False:
            return False
        if a is True and b is True:
            return True
        return None
    if k == 'BinaryOperator' and n.get('opcode') == '||':
        a = eval3(n['inner'][0], assume)
        b = eval3(n['inner'][1], assume)
        if a is True or b is True:
            return True
        if a is False and b is False:
            return False
        return None
    iv = int_value(n)
    if iv is not None:
        return bool(iv)
    if k == 'DeclRefExpr':
        # a named boolean assigned only by its declaration stands for its initialiser
        rd = n.get('referencedDecl') or {}
        if rd.get('kind') == 'VarDecl' and ((rd.get('type') or {}).get('qualType') or '').replace('const ', '') == 'bool':
            init = _single_assignment_init(rd)
            if init is not None:
                return eval3(init, assume)
    return None


def facts_at_end(compound):
    """Facts holding when control falls off the end of a compound statement."""
    dummy = {'kind': 'NullStmt', '_p': compound}
    compound.setdefault('inner', []).append(dummy)
    try:
        return path_facts(dummy)
    finally:
        compound['inner'].pop()


# --------------------------------------------------------------------------
# "may execute after" on the structured statement tree

def may_follow(a, b):
    """True unless the structure of the function shows that node b can never execute after node a
    in the same activation: a and b sit in the two arms of one if/conditional, or the statements
    between them cannot fall through (return/throw/break/continue)."""
    if a is b:
        return any(x.get('kind') in ('ForStmt', 'WhileStmt', 'DoStmt', 'CXXForRangeStmt') for x in ancestors(a))
    aa = [a] + list(ancestors(a))
    ba = [b] + list(ancestors(b))
    ids_b = {id(x): i for i, x in enumerate(ba)}
    lca = None
    for i, x in enumerate(aa):
        if id(x) in ids_b:
            lca, ia, ib = x, i, ids_b[id(x)]
            break
    if lca is None:
        return True
    if any(x.get('kind') in ('ForStmt', 'WhileStmt', 'DoStmt', 'CXXForRangeStmt') for x in [lca] + list(ancestors(lca))):
        return True
    if ia == 0 or ib == 0:
        return True   # one contains the other
    ca, cb = aa[ia - 1], ba[ib - 1]
    k = lca.get('kind')
    if k == 'IfStmt':
        cond, then, els = if_parts(lca)
        if (ca is then and cb is els) or (ca is els and cb is then):
            return False
        return ca is cond
    if k == 'ConditionalOperator':
        ks = kids(lca)
        if len(ks) == 3 and ((ca is ks[1] and cb is ks[2]) or (ca is ks[2] and cb is ks[1])):
            return False
        return True
    if k == 'CompoundStmt':
        ks = list(kids(lca))
        pa = next((i for i, x in enumerate(ks) if x is ca), None)
        pb = next((i for i, x in enumerate(ks) if x is cb), None)
        if pa is None or pb is None:
            return True
        if pa > pb:
            return False
        # every statement from ca up to (not including) cb must be able to fall through;
        # for ca itself: the part after `a` inside it
        if not _falls_after(ca, a):
            return False
        return all(falls_through(s) for s in ks[pa + 1:pb])
    return True


def _falls_after(stmt, a):
    """can control reach the end of stmt after executing node a (a inside stmt)?"""
    if stmt is a:
        return falls_through(stmt) if stmt.get('kind', '').endswith('Stmt') else True
    if stmt.get('kind') in ('ReturnStmt', 'CXXThrowExpr', 'BreakStmt', 'ContinueStmt'):
        return False
    chain = []
    p = a
    while p is not None and p is not stmt:
        chain.append(p)
        p = p.get('_p')
    # walk outwards: at each CompoundStmt level the following siblings must fall through; an
    # if-arm falls out of the IfStmt; a return/throw ancestor stops
    for i, x in enumerate(chain):
        par = x.get('_p')
        if par is None:
            break
        if par.get('kind') in ('ReturnStmt', 'CXXThrowExpr'):
            return False
        if par.get('kind') == 'CompoundStmt':
            ks = list(kids(par))
            pi = next((j for j, y in enumerate(ks) if y is x), None)
            if pi is not None and not all(falls_through(s) for s in ks[pi + 1:]):
                return False
        if par is stmt:
            break
    return True


def va_list_consumptions(func):
    """{va_list variable id: [nodes that consume it]}: a va_list is consumed when it is handed to a
    callee (v*printf family, any function taking a va_list); va_start / va_end / va_arg / the source
    position of va_copy do not consume it as a whole."""
    out = {}
    body = body_of(func)
    if body is None:
        return out
    for x in walk(body):
        k = x.get('kind')
        if k == 'CallExpr':
            nm = call_name(x) or ''
            if nm in ('__builtin_va_start', '__builtin_va_end', '__builtin_va_copy'):
                continue
            for a in call_args(x):
                a0 = strip(a)
                rd = ref_decl(a0) if a0 is not None and a0.get('kind') == 'DeclRefExpr' else None
                if rd and ('va_list' in ((rd.get('type') or {}).get('qualType') or '') or '__va_list_tag' in ((rd.get('type') or {}).get('qualType') or '')):
                    out.setdefault(rd['id'], []).append(x)
    return out


def persistent_locals(func):
    """function-local variables with static or thread storage duration that are not const:
    state left behind by one call and seen by the next (possibly on another object)."""
    out = []
    b = body_of(func)
    if b is None:
        return out
    for v in walk(b):
        if v.get('kind') == 'VarDecl' and (v.get('storageClass') == 'static' or v.get('tls')):
            qt = ((v.get('type') or {}).get('qualType') or '')
            if qt.startswith('const ') or v.get('constexpr'):
                continue
            out.append(v)
    return out


def reset_before_use(var, func):
    """the persistent local is emptied/reassigned unconditionally right after its declaration
    (the next statement is `var.clear()` / `var = ...` / `var.assign(...)`)."""
    st = containing_statement(var)
    p = st.get('_p') if st is not None else None
    if p is None or p.get('kind') != 'CompoundStmt':
        return False
    sibs = list(kids(p))
    i = next((j for j, s in enumerate(sibs) if s is st), None)
    if i is None or i + 1 >= len(sibs):
        return False
    nx = strip(sibs[i + 1])
    if nx.get('kind') == 'CXXMemberCallExpr' and call_name(nx) in ('clear', 'assign') and (ref_decl(member_call_object(nx)) or {}).get('id') == var['id']:
        return True
    if nx.get('kind') in ('BinaryOperator', 'CXXOperatorCallExpr') and (nx.get('opcode') == '=' or call_name(nx) == 'operator=') and (ref_decl(kids(nx)[0] if nx.get('kind') == 'BinaryOperator' else kids(nx)[1]) or {}).get('id') == var['id']:
        return True
    return False


def aliased_reference_locals(func):
    """[(ref VarDecl, write node, read node)]: a local const reference bound to an element / member
    of an object, while the same object is written through another expression and the reference is
    read afterwards (or in the same loop): the "captured value" silently changes with the write."""
    import re as _re
    out = []
    body = body_of(func)
    if body is None:
        return out

    def root_of(e):
        e = strip(e)
        idx = []
        while e is not None and e.get('kind') in ('ArraySubscriptExpr', 'ImplicitCastExpr', 'ParenExpr', 'CXXOperatorCallExpr'):
            if e.get('kind') == 'ArraySubscriptExpr':
                idx.append(e['inner'][1])
                e = strip(e['inner'][0])
            elif e.get('kind') == 'CXXOperatorCallExpr' and call_name(e) == 'operator[]':
                idx.append(kids(e)[2])
                e = strip(kids(e)[1])
            elif e.get('kind') in ('ImplicitCastExpr', 'ParenExpr'):
                e = strip(kids(e)[0])
            else:
                break
        return (canon(e) if e is not None else None), idx

    for vd in walk(body):
        if vd.get('kind') != 'VarDecl' or not kids(vd):
            continue
        qt = (qtype(vd) or '').rstrip()
        if not qt.endswith('&') or 'const' not in qt:
            continue
        init = strip(kids(vd)[-1])
        while init is not None and init.get('kind') in ('ImplicitCastExpr', 'ParenExpr', 'MaterializeTemporaryExpr', 'ExprWithCleanups') and kids(init):
            if init.get('kind') == 'MaterializeTemporaryExpr':
                init = None      # bound to a temporary: a copy
                break
            init = strip(kids(init)[0])
        if init is None or init.get('kind') not in ('ArraySubscriptExpr', 'MemberExpr', 'CXXOperatorCallExpr'):
            continue
        root, idx = root_of(init)
        if init.get('kind') == 'MemberExpr' and not idx:
            root = canon(init)
        if not root:
            continue
        scope = vd.get('_p')
        while scope is not None and scope.get('kind') != 'CompoundStmt':
            scope = scope.get('_p')
        if scope is None:
            continue
        reads = [x for x in walk(scope) if x.get('kind') == 'DeclRefExpr' and (x.get('referencedDecl') or {}).get('id') == vd['id']]
        for wn in walk(scope):
            k = wn.get('kind')
            tgt = None
            if k in ('BinaryOperator', 'CompoundAssignOperator') and wn.get('opcode') in ASSIGN_OPS:
                tgt = wn['inner'][0]
            elif k == 'UnaryOperator' and wn.get('opcode') in ('++', '--'):
                tgt = wn['inner'][0]
            if tgt is None or wn.get('_off', 0) < vd.get('_off', 0):
                continue
            if any((y.get('referencedDecl') or {}).get('id') == vd['id'] for y in walk(tgt) if y.get('kind') == 'DeclRefExpr'):
                continue
            wroot, widx = root_of(tgt)
            if strip(tgt).get('kind') == 'MemberExpr' and not widx:
                wroot = canon(tgt)
            if wroot != root or len(widx) != len(idx):
                continue
            # provably different constant indices cannot alias
            if any(int_value(a) is not None and int_value(b) is not None and int_value(a) != int_value(b) for a, b in zip(idx, widx)):
                continue
            lp = enclosing(wn, ('ForStmt', 'WhileStmt', 'DoStmt', 'CXXForRangeStmt'))
            in_scope_loop = lp is not None and lp.get('_off', 0) >= scope.get('_off', 0)
            for rd in reads:
                later = rd.get('_off', 0) > wn.get('_off', 0)
                same_loop = in_scope_loop and enclosing(rd, ('ForStmt', 'WhileStmt', 'DoStmt', 'CXXForRangeStmt')) is not None and any(a is lp for a in _ancestors(rd))
                if later or same_loop:
                    out.append((vd, wn, rd))
                    break
            if out and out[-1][0] is vd:
                break
    return out


def aliased_reference_params(func):
    """[(param, call site, write node, verdict)] for local lambdas of func that take a `const T&` parameter
    bound, at a call, to an element of an object the lambda itself writes while it still reads the
    parameter.  verdict is 'alias' when every index pair is equal or ranges over a loop variable of the
    lambda, 'unknown' when some pair cannot be compared."""
    out = []
    body = body_of(func)
    if body is None:
        return out

    def root_of(e):
        e = strip(e)
        idx = []
        while e is not None and e.get('kind') in ('ArraySubscriptExpr', 'ImplicitCastExpr', 'ParenExpr', 'CXXOperatorCallExpr', 'MaterializeTemporaryExpr'):
            if e.get('kind') == 'MaterializeTemporaryExpr':
                return None, []
            if e.get('kind') == 'ArraySubscriptExpr':
                idx.append(e['inner'][1])
                e = strip(e['inner'][0])
            elif e.get('kind') == 'CXXOperatorCallExpr' and call_name(e) == 'operator[]':
                idx.append(kids(e)[2])
                e = strip(kids(e)[1])
            elif kids(e):
                e = strip(kids(e)[0])
            else:
                break
        return (canon(e) if e is not None else None), idx
    lambdas = {}
    for vd in walk(body):
        if vd.get('kind') == 'VarDecl' and kids(vd):
            le = next((x for x in walk(kids(vd)[-1]) if x.get('kind') == 'LambdaExpr'), None)
            if le is not None:
                op = next((m for m in walk(le) if m.get('kind') == 'CXXMethodDecl' and m.get('name') == 'operator()' and body_of(m) is not None), None)
                if op is not None:
                    lambdas[vd['id']] = (vd, op)
    for c in walk(body):
        if c.get('kind') != 'CXXOperatorCallExpr' or call_name(c) != 'operator()' or len(kids(c)) < 2:
            continue
        lv = lambdas.get((ref_decl(kids(c)[1]) or {}).get('id'))
        if lv is None:
            continue
        vd, op = lv
        ps = params_of(op)
        args = kids(c)[2:]
        pmap = {p_['id']: a_ for p_, a_ in zip(ps, args)}
        lb = body_of(op)
        for p_, a_ in zip(ps, args):
            qt = (qtype(p_) or '').rstrip()
            if not qt.endswith('&') or 'const' not in qt:
                continue
            root, idx = root_of(a_)
            if not root or not idx:
                continue
            reads = [x for x in walk(lb) if x.get('kind') == 'DeclRefExpr' and (x.get('referencedDecl') or {}).get('id') == p_['id']]
            if not reads:
                continue
            for wn in walk(lb):
                k = wn.get('kind')
                tgt = None
                if k in ('BinaryOperator', 'CompoundAssignOperator') and wn.get('opcode') in ASSIGN_OPS:
                    tgt = wn['inner'][0]
                elif k == 'UnaryOperator' and wn.get('opcode') in ('++', '--'):
                    tgt = wn['inner'][0]
                if tgt is None:
                    continue
                wroot, widx = root_of(tgt)
                if wroot != root or len(widx) != len(idx):
                    continue
                lp = enclosing(wn, LOOPS)
                live = any(r_.get('_off', 0) > wn.get('_off', 0) or (lp is not None and any(a2 is lp for a2 in _ancestors(r_))) for r_ in reads)
                if not live:
                    continue
                local_ids = {v_['id'] for v_ in walk(lb) if v_.get('kind') == 'VarDecl'}
                caller_facts = set()
                for n_, pol in atoms(path_facts(c)):
                    r_ = relation(n_, pol)
                    if r_ and r_[1] == '!=':
                        caller_facts.add(frozenset((canon(r_[0]), canon(r_[2]))))
                verdict = 'alias'
                for wi, ei in zip(widx, idx):
                    rd_ = ref_decl(wi)
                    wi_c = canon(pmap[rd_['id']]) if rd_ is not None and rd_.get('id') in pmap else canon(wi)
                    ei_c = canon(ei)
                    if int_value(wi) is not None and int_value(ei) is not None and int_value(wi) != int_value(ei):
                        verdict = None
                        break
                    if frozenset((wi_c, ei_c)) in caller_facts:
                        verdict = None
                        break
                    if rd_ is not None and rd_.get('id') in local_ids:
                        continue            # a loop variable of the lambda: takes every value
                    if wi_c == ei_c:
                        continue
                    verdict = 'unknown'
                if verdict:
                    out.append((p_, c, wn, verdict))
                    break
    return out


def _ancestors(n):
    n = n.get('_p')
    while n is not None:
        yield n
        n = n.get('_p')


PERSISTENT_ALLOWED = {
    # (function name, variable name): reason
    ('random_data', 'buffer'): 'the per-thread pool of random bytes is the point of the function (C20-R5 judges its accounting)',
    ('random_data', 'fd'): '/dev/urandom descriptor opened once per thread',
    ('get_values_multi', 'empty_vec'): 'an empty vector handed out by reference for absent options; never written',
}


def input_dependent_persistent_writes(func):
    """[(persistent VarDecl, write node)]: a function-local with static / thread storage that is
    written with data derived from the call's arguments and is not reset at the start of the call:
    what one call leaves there is seen by the next one."""
    out = []
    body = body_of(func)
    if body is None:
        return out
    pers = [v for v in persistent_locals(func) if (func.get('name'), v.get('name')) not in PERSISTENT_ALLOWED and not reset_before_use(v, func)]
    if not pers:
        return out
    tainted = {p['id'] for p in params_of(func)}
    changed = True
    while changed:
        changed = False
        for v in walk(body):
            if v.get('kind') == 'VarDecl' and v['id'] not in tainted and kids(v) and any(y.get('kind') == 'DeclRefExpr' and (y.get('referencedDecl') or {}).get('id') in tainted for y in walk(v)) or \
               (v.get('kind') == 'VarDecl' and v['id'] not in tainted and kids(v) and any(y.get('kind') == 'CXXThisExpr' for y in walk(v))):
                tainted.add(v['id'])
                changed = True
    for pv in pers:
        for x in walk(body):
            k = x.get('kind')
            tgt = None
            if k in ('BinaryOperator', 'CompoundAssignOperator') and x.get('opcode') in ASSIGN_OPS:
                tgt = x['inner'][0]
            elif k == 'CXXOperatorCallExpr' and (call_name(x) or '') in ('operator=', 'operator+=', 'operator<<'):
                tgt = kids(x)[1]
            elif k == 'CXXMemberCallExpr' and (call_name(x) or '') in ('push_back', 'emplace_back', 'append', 'assign', 'insert', 'emplace', 'resize', 'operator=', 'swap'):
                tgt = member_call_object(x)
            if tgt is None or not any(y.get('kind') == 'DeclRefExpr' and (y.get('referencedDecl') or {}).get('id') == pv['id'] for y in walk(tgt)):
                continue
            if any((y.get('kind') == 'DeclRefExpr' and (y.get('referencedDecl') or {}).get('id') in tainted) or y.get('kind') == 'CXXThisExpr' for y in walk(x)):
                out.append((pv, x))
                break
    return out
