#!/bin/sh
# usage: bin/benign_round.sh Cxx -- confirm /tmp/seed-Cxx/out/b1..b4 and run the property's check on each confirmed one
P=$1
for n in b1 b2 b3 b4; do
  [ -f /tmp/seed-$P/out/$n/patch.diff ] || continue
  python3 /verif/bin/confirm_benign.py $P $n 2>&1 | tail -2 | tr '\n' ' '; echo
  if [ -f /verif/benign/$P-$n.diff ]; then
    out=$(/verif/bin/try_patch.sh /verif/benign/$P-$n.diff $P)
    if echo "$out" | grep -q "VIOLATION\|ANALYSIS-BROKEN"; then echo "ALARM $P-$n"; echo "$out" | grep -E "^violation|ANALYSIS" | cut -c1-300 | head -5; else echo "silent $P-$n"; fi
  fi
done
