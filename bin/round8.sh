#!/bin/sh
# usage: bin/round3.sh Cxx -- confirm round-8 outputs: s17,s18 -> seeded/Cxx-17,18 ; h1,h2 -> benign/Cxx-h1,h2 ; then run the check on each
P=$1
for n in 17 18; do
  [ -f /tmp/seed-$P/out/s$n/patch.diff ] || continue
  SEED_ROUND=8 python3 /verif/bin/confirm_seed.py $P s$n $n 2>&1 | grep -E '"confirmed"|filed' | tr '\n' ' '; echo
done
for n in h1 h2; do
  [ -f /tmp/seed-$P/out/$n/patch.diff ] || continue
  python3 /verif/bin/confirm_benign.py $P $n 2>&1 | tail -1
done
