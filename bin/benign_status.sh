#!/bin/sh
# one line per benign patch: silent / UNDEC (exit 0, some obligations reported undecided) / EXIT2 (analysis broken) / ALARM (false VIOLATION)
cd /verif
for p in benign/${1:-*}.diff; do
  id=$(basename $p | cut -d- -f1)
  out=$(bin/try_patch.sh $p $id 2>&1)
  if echo "$out" | grep -q "^VIOLATION"; then echo "ALARM  $(basename $p .diff)  $(echo "$out" | grep -m1 '^violation' | cut -c12-120)";
  elif echo "$out" | grep -q "ANALYSIS-BROKEN"; then echo "EXIT2  $(basename $p .diff)  $(echo "$out" | grep -m1 'ANALYSIS' | cut -c1-140)";
  elif echo "$out" | grep -q "^UNDECIDED"; then echo "UNDEC  $(basename $p .diff)  $(echo "$out" | grep -m1 '^UNDECIDED' | cut -c1-140)";
  else echo "silent $(basename $p .diff)"; fi
done
