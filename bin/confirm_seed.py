#!/usr/bin/env python3
"""Confirm a sub-agent's seeded change and file it under /verif/seeded/<Cxx>-<n>/.
usage: bin/confirm_seed.py Cxx n   (reads /tmp/seed-Cxx/out/n, works in the scratch worktree /tmp/seed-Cxx)
Confirms: (a) patch applies and the 14 tests pass with it, (b) demo fails with it, (c) demo passes without it."""
import json, os, re, shutil, subprocess, sys
pid, n = sys.argv[1], sys.argv[2]
dest_n = sys.argv[3] if len(sys.argv) > 3 else n   # optional: file under a different index (round 2: n+3)
ROUND = os.environ.get('SEED_ROUND', '1')
W = '/tmp/seed-%s' % pid
O = '%s/out/%s' % (W, n)
def sh(cmd, timeout=1800):
    r = subprocess.run(cmd, shell=True, cwd=W, stdout=subprocess.PIPE, stderr=subprocess.STDOUT, timeout=timeout)
    return r.returncode, r.stdout.decode('utf8', 'replace')
def build():
    rc, out = sh('cmake -S . -B _build -G Ninja -DCMAKE_BUILD_TYPE=RelWithDebInfo -DCMAKE_CXX_FLAGS=-Wno-error -DCMAKE_C_FLAGS=-Wno-error >/dev/null && cmake --build _build -j16 2>&1 | tail -5')
    return rc, out
def tests():
    rc, out = sh('ctest --test-dir _build -j8 --timeout 900 2>&1 | tail -4')
    m = re.search(r'(\d+)% tests passed, (\d+) tests failed out of (\d+)', out)
    return (m and m.group(2) == '0' and m.group(3) == '14'), out
def demo():
    src = open(O + '/demo.cc').read() if os.path.exists(O + '/demo.cc') else ''
    hdr = '\n'.join(src.split('\n')[:40])
    san = ''
    if '-fsanitize=address' in hdr: san = '-fsanitize=address'
    if '-fsanitize=thread' in hdr: san = '-fsanitize=thread'
    import re as _re
    extra = ' '.join(sorted(set(_re.findall(r'-Wl,[^ \\\n]+', hdr)))) + (' -lcrypto' if '-lcrypto' in hdr else '')
    if os.path.exists(O + '/demo.sh'):
        rc, out = sh('sh %s/demo.sh' % O, timeout=1200)
        return rc, out[-1500:], 'sh demo.sh'
    cmd = 'g++ -std=gnu++20 -g %s -I%s/src -I%s %s/demo.cc %s/_build/libphosg.a -lz -lpthread %s -o %s/demo' % (san, W, W, O, W, extra, O)
    rc, out = sh(cmd)
    if rc != 0:
        return None, 'demo does not compile: ' + out[-1500:], cmd
    rc, out = sh('%s/demo' % O, timeout=1200)
    return rc, out[-1500:], cmd + ' && ' + O + '/demo'
res = {'property': pid, 'seed': n}
sh('git checkout -- src')
rc, out = sh('git apply %s/patch.diff' % O)
if rc != 0:
    print('patch does not apply', out); sys.exit(1)
rc, out = build()
res['builds_with_patch'] = (rc == 0)
ok, out = tests()
res['tests_pass_with_patch'] = bool(ok)
rc1, out1, cmd = demo()
res['demo_cmd'] = cmd
res['demo_exit_with_patch'] = rc1
res['demo_output_with_patch'] = out1[-600:]
sh('git checkout -- src')
build()
rc0, out0, _ = demo()
res['demo_exit_without_patch'] = rc0
res['confirmed'] = bool(res['builds_with_patch'] and res['tests_pass_with_patch'] and rc1 not in (0, None) and rc0 == 0)
notes = open(O + '/notes.md').read() if os.path.exists(O + '/notes.md') else ''
res['needs'] = ''
res['notes_head'] = notes[:1500]
print(json.dumps({k: v for k, v in res.items() if k not in ('notes_head', 'demo_output_with_patch')}, indent=1))
if res['confirmed']:
    D = '/verif/seeded/%s-%s' % (pid, dest_n)
    os.makedirs(D, exist_ok=True)
    for f in ('patch.diff', 'demo.cc', 'demo.sh', 'notes.md'):
        if os.path.exists(O + '/' + f):
            shutil.copy(O + '/' + f, D + '/' + f)
    meta = {'property': pid, 'round': ROUND, 'origin': 'independent sub-agent given only the property text and a scratch worktree',
            'breaks': pid, 'needs_to_manifest': '(see notes.md)', 'confirmed_by': 'bin/confirm_seed.py: applied in scratch worktree, rebuilt, ctest 14/14 pass with the change, demo exit %s with the change, demo exit 0 without it' % rc1,
            'demo_cmd': cmd.replace(W, '<worktree>'), 'demo_exit_with_patch': rc1, 'demo_exit_without_patch': rc0, 'tests_pass_with_patch': True}
    json.dump(meta, open(D + '/meta.json', 'w'), indent=1)
    print('filed', D)
