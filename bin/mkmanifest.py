#!/usr/bin/env python3
"""Regenerate /verif/MANIFEST.json from the table below (kept in one place so that the
manifest is always valid and not_applicable is always current)."""
import json, os
V = '/verif'
props = [json.loads(l) for l in open(V + '/properties.jsonl')]
CLAIMS = json.load(open(V + '/claims.json'))
checks = []
na = []
for p in props:
    pid = p['id']
    c = CLAIMS.get(pid)
    if not c or not c.get('claimed'):
        na.append({'property_id': pid, 'reason': (c or {}).get('reason', 'check not implemented yet (work in progress; planned rules in DESIGN.md section 5)')})
        continue
    checks.append({
        'property_id': pid,
        'quick_cmd': 'python3 sa/check.py %s --tier quick' % pid,
        'thorough_cmd': 'python3 sa/check.py %s --tier thorough' % pid,
        'evidence_file': '/verif/evidence/%s.json' % pid,
        'replay_cmd_template': 'python3 sa/check.py %s --replay {path}' % pid,
        'engine': 'sa',
        'level_claimed': {'category': 'other', 'text': c['text'], 'design_ref': 'DESIGN.md section 5, ' + pid},
        'level_note': c['note'],
        'technique': c['technique'],
    })
m = {
    'version': 1,
    'setup_cmd': 'python3 sa/selftest.py --setup',
    'hooks': {'guard': 'PHOSG_VERIF', 'enable': 'no hooks: the analysis reads the unmodified sources of /repo; nothing in /repo is guarded', 'baseline_off_cmd': '/verif/baseline_off.sh', 'source_commits': [], 'add_only': True},
    'engines': [{'name': 'sa', 'path': 'sa/', 'serves_properties': [c['property_id'] for c in checks],
                 'kind_free_text': 'custom static analysis in Python over clang 14\'s type-checked AST (JSON dump of every library unit and of witness units with explicit template instantiations): structured-CFG path facts, guard/bounds obligations, exception-escape sets, bit-provenance abstract interpretation, table/sibling agreement, pairing, constant audits; no phosg code is executed'}],
    'checks': checks,
    'not_applicable': na,
    'notes': 'Static analysis only. Exit 2 = analysis broken (anchor vanished / instance count below frozen minimum), never a pass. Known findings: /verif/known_findings.json.',
}
json.dump(m, open(V + '/MANIFEST.json', 'w'), indent=1)
print('checks:', [c['property_id'] for c in checks], 'n/a:', len(na))
