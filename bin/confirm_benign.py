#!/usr/bin/env python3
"""Confirm a sub-agent's behaviour-preserving change and file it under /verif/benign/.
usage: bin/confirm_benign.py Cxx bN   (reads /tmp/seed-Cxx/out/bN, works in the scratch worktree /tmp/seed-Cxx)
Confirms: patch applies, library builds, 14 tests pass with it, the agent's demo passes with it and without it.
Files: benign/Cxx-bN.diff, benign/Cxx-bN.notes.md, benign/demos/Cxx-bN.cc|sh"""
import json, os, re, shutil, subprocess, sys
pid, n = sys.argv[1], sys.argv[2]
W = '/tmp/seed-%s' % pid
O = '%s/out/%s' % (W, n)
def sh(cmd, timeout=1800):
    r = subprocess.run(cmd, shell=True, cwd=W, stdout=subprocess.PIPE, stderr=subprocess.STDOUT, timeout=timeout)
    return r.returncode, r.stdout.decode('utf8', 'replace')
def build():
    return sh('cmake -S . -B _build -G Ninja -DCMAKE_BUILD_TYPE=RelWithDebInfo -DCMAKE_CXX_FLAGS=-Wno-error -DCMAKE_C_FLAGS=-Wno-error >/dev/null && cmake --build _build -j16 2>&1 | tail -5')
def tests():
    for attempt in range(3):
        rc, out = sh('ctest --test-dir _build -j6 --timeout 900 2>&1 | tail -6')
        m = re.search(r'(\d+)% tests passed, (\d+) tests failed out of (\d+)', out)
        if m and m.group(2) == '0' and m.group(3) == '14':
            return True, out
        if 'ProcessTest' not in out:
            break
    return False, out
def demo():
    if os.path.exists(O + '/demo.sh'):
        rc, out = sh('sh %s/demo.sh' % O, timeout=1200)
        return rc, out[-800:]
    src = open(O + '/demo.cc').read()
    hdr = '\n'.join(src.split('\n')[:40])
    san = '-fsanitize=address' if '-fsanitize=address' in hdr else ''
    cmd = 'g++ -std=gnu++20 -g %s -I%s/src -I%s %s/demo.cc %s/_build/libphosg.a -lz -lpthread %s -o %s/demo' % (san, W, W, O, W, ' -lcrypto' if '-lcrypto' in hdr else '', O)
    rc, out = sh(cmd)
    if rc != 0:
        return None, 'demo does not compile: ' + out[-800:]
    rc, out = sh('%s/demo' % O, timeout=1200)
    return rc, out[-800:]
res = {'property': pid, 'case': n}
sh('git checkout -- src')
rc, out = sh('git apply %s/patch.diff' % O)
if rc != 0:
    print('patch does not apply', out); sys.exit(1)
rc, out = build()
res['builds'] = rc == 0
ok, out = tests()
res['tests_pass'] = bool(ok)
rc1, out1 = demo()
res['demo_exit_with_patch'] = rc1
sh('git checkout -- src')
build()
rc0, out0 = demo()
res['demo_exit_without_patch'] = rc0
res['confirmed'] = bool(res['builds'] and res['tests_pass'] and rc1 == 0 and rc0 == 0)
print(json.dumps(res))
if res['confirmed']:
    os.makedirs('/verif/benign/demos', exist_ok=True)
    shutil.copy(O + '/patch.diff', '/verif/benign/%s-%s.diff' % (pid, n))
    if os.path.exists(O + '/notes.md'):
        shutil.copy(O + '/notes.md', '/verif/benign/%s-%s.notes.md' % (pid, n))
    for f in ('demo.cc', 'demo.sh'):
        if os.path.exists(O + '/' + f):
            shutil.copy(O + '/' + f, '/verif/benign/demos/%s-%s.%s' % (pid, n, f.split('.')[1]))
    print('filed benign/%s-%s.diff' % (pid, n))
else:
    print(out1[-400:] if rc1 != 0 else '', out[-300:] if not ok else '')
