#!/bin/sh
# Every patch under /verif/benign is a behaviour-preserving (or correct) variant of /repo: the named check must stay silent on it.
cd /verif
rc=0
for p in benign/*.diff; do
  id=$(basename $p | cut -d- -f1)
  out=$(bin/try_patch.sh $p $id)
  if echo "$out" | grep -q "VIOLATION\|ANALYSIS-BROKEN"; then echo "FALSE ALARM on $p"; echo "$out" | head -3; rc=1; else echo "silent: $p"; fi
done
exit $rc
