#!/bin/sh
# usage: bin/try_patch.sh <patch.diff> <Cxx> [more props]  -- applies the patch to the scratch worktree /tmp/phosg-mut
# (created on demand at /repo HEAD, outside /repo and /verif), runs the checks there, restores it.
P=$(readlink -f "$1"); shift
W=/tmp/phosg-mut
[ -d $W ] || git -C /repo worktree add --detach $W HEAD >/dev/null 2>&1
git -C $W checkout -q --detach $(git -C /repo rev-parse HEAD) 2>/dev/null
git -C $W checkout -q -- . && git -C $W apply "$P" || { echo "patch does not apply"; exit 3; }
rc=0
for id in "$@"; do
  VERIF_REPO=$W python3 /verif/sa/check.py $id | grep -E "^(violation|VIOLATION|UNDECIDED|ANALYSIS|C[0-9]+ \[)" | cut -c1-400
done
git -C $W checkout -q -- .
