#!/bin/sh
# usage: bin/round3.sh Cxx -- confirm round-5 outputs: s11,s12 -> seeded/Cxx-11,12 ; e1,e2 -> benign/Cxx-e1,e2 ; then run the check on each
P=$1
for n in 11 12; do
  [ -f /tmp/seed-$P/out/s$n/patch.diff ] || continue
  SEED_ROUND=5 python3 /verif/bin/confirm_seed.py $P s$n $n 2>&1 | grep -E '"confirmed"|filed' | tr '\n' ' '; echo
done
for n in e1 e2; do
  [ -f /tmp/seed-$P/out/$n/patch.diff ] || continue
  python3 /verif/bin/confirm_benign.py $P $n 2>&1 | tail -1
done
