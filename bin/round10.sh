#!/bin/sh
# usage: bin/round3.sh Cxx -- confirm round-10 outputs: s19 -> seeded/Cxx-19 ; i1 -> benign/Cxx-i1 ; then run the check on each
P=$1
for n in 19; do
  [ -f /tmp/seed-$P/out/s$n/patch.diff ] || continue
  SEED_ROUND=10 python3 /verif/bin/confirm_seed.py $P s$n $n 2>&1 | grep -E '"confirmed"|filed' | tr '\n' ' '; echo
done
for n in i1; do
  [ -f /tmp/seed-$P/out/$n/patch.diff ] || continue
  python3 /verif/bin/confirm_benign.py $P $n 2>&1 | tail -1
done
