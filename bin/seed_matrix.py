#!/usr/bin/env python3
"""Run every confirmed seeded change under /verif/seeded against its property's check
(in the scratch worktree /tmp/phosg-mut, never in /repo) and record which rules fire.
Writes seeded/RESULTS.md and adds `detected_by` to each meta.json."""
import json, os, re, subprocess, sys
V = '/verif'
W = '/tmp/phosg-mut'
def sh(cmd, **kw):
    return subprocess.run(cmd, shell=True, stdout=subprocess.PIPE, stderr=subprocess.STDOUT, text=True, **kw)
if not os.path.isdir(W):
    sh('git -C /repo worktree add --detach %s HEAD' % W)
sh('git -C %s checkout -q --detach $(git -C /repo rev-parse HEAD); git -C %s checkout -q -- .' % (W, W))
rows = []
extra = {'C01-2': ['C02'], 'C17-3': ['C08']}
ONLY = sys.argv[1:]
prev = {}
if ONLY and os.path.exists(V + '/seeded/RESULTS.md'):
    for l in open(V + '/seeded/RESULTS.md'):
        m = re.match(r'\| (C\d+-\d+) \| ([^|]+) \| ([^|]*) \|', l)
        if m:
            prev[m.group(1)] = (m.group(1), m.group(2).strip(), [x for x in m.group(3).strip().split(', ') if x])
def _key(d):
    a, b = d.split('-')[:2]
    return (a, int(b)) if b.isdigit() else (a, 0)
for d in sorted([x for x in os.listdir(V + '/seeded') if re.match(r'C\d+-\d+$', x)], key=_key):
    p = '%s/seeded/%s' % (V, d)
    if ONLY and not any(d == o or d.startswith(o + '-') for o in ONLY):
        if d in prev:
            rows.append(prev[d])
        continue
    if not os.path.isfile(p + '/patch.diff'):
        continue
    pid = d.split('-')[0]
    sh('git -C %s checkout -q -- .' % W)
    r = sh('git -C %s apply %s/patch.diff' % (W, p))
    if r.returncode:
        rows.append((d, 'patch does not apply', []))
        continue
    fired = []
    status = 'MISSED'
    for cid in [pid] + extra.get(d, []):
        o = sh('VERIF_REPO=%s python3 %s/sa/check.py %s' % (W, V, cid)).stdout
        vs = sorted(set(re.findall(r'^violation: (C\d+-R\w+)', o, re.M)))
        if 'ANALYSIS-BROKEN' in o and not vs:
            fired.append('%s: analysis broken' % cid)
        fired += vs
        if vs and cid == pid:
            status = 'caught'
        elif vs and status != 'caught':
            status = 'caught by ' + cid
    sh('git -C %s checkout -q -- .' % W)
    rows.append((d, status, fired))
    mp = p + '/meta.json'
    m = json.load(open(mp))
    m['detected_by'] = fired
    m['detection'] = status
    notes = open(p + '/notes.md').read() if os.path.exists(p + '/notes.md') else ''
    json.dump(m, open(mp, 'w'), indent=1)
with open(V + '/seeded/RESULTS.md', 'w') as f:
    f.write('# Seeded changes vs. checks\n\nEach change was written by an independent sub-agent that saw only the property text and a scratch worktree, and was confirmed here (tests pass with it, its demo fails with it and passes without it). `caught` = the property\'s own quick check exits 1 naming the construct.\n\n| seed | result | rules that fire |\n|---|---|---|\n')
    for d, st, fired in rows:
        f.write('| %s | %s | %s |\n' % (d, st, ', '.join(fired)))
    n = len(rows)
    c = sum(1 for r in rows if r[1].startswith('caught'))
    f.write('\n%d of %d seeded changes are detected.\n' % (c, n))
print('\n'.join('%-8s %-18s %s' % (r[0], r[1], ','.join(r[2])) for r in rows))
