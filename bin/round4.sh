#!/bin/sh
# usage: bin/round3.sh Cxx -- confirm round-4 outputs: s9,s10 -> seeded/Cxx-9,10 ; d1,d2 -> benign/Cxx-d1,d2 ; then run the check on each
P=$1
for n in 9 10; do
  [ -f /tmp/seed-$P/out/s$n/patch.diff ] || continue
  SEED_ROUND=4 python3 /verif/bin/confirm_seed.py $P s$n $n 2>&1 | grep -E '"confirmed"|filed' | tr '\n' ' '; echo
done
for n in d1 d2; do
  [ -f /tmp/seed-$P/out/$n/patch.diff ] || continue
  python3 /verif/bin/confirm_benign.py $P $n 2>&1 | tail -1
done
