#!/bin/sh
# usage: bin/round3.sh Cxx -- confirm round-7 outputs: s15,s16 -> seeded/Cxx-15,16 ; g1,g2 -> benign/Cxx-g1,g2 ; then run the check on each
P=$1
for n in 15 16; do
  [ -f /tmp/seed-$P/out/s$n/patch.diff ] || continue
  SEED_ROUND=7 python3 /verif/bin/confirm_seed.py $P s$n $n 2>&1 | grep -E '"confirmed"|filed' | tr '\n' ' '; echo
done
for n in g1 g2; do
  [ -f /tmp/seed-$P/out/$n/patch.diff ] || continue
  python3 /verif/bin/confirm_benign.py $P $n 2>&1 | tail -1
done
