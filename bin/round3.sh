#!/bin/sh
# usage: bin/round3.sh Cxx -- confirm round-3 outputs: s7,s8 -> seeded/Cxx-7,8 ; c1..c3 -> benign/Cxx-c1..c3 ; then run the check on each
P=$1
for n in 7 8; do
  [ -f /tmp/seed-$P/out/s$n/patch.diff ] || continue
  SEED_ROUND=3 python3 /verif/bin/confirm_seed.py $P s$n $n 2>&1 | grep -E '"confirmed"|filed' | tr '\n' ' '; echo
done
for n in c1 c2 c3; do
  [ -f /tmp/seed-$P/out/$n/patch.diff ] || continue
  python3 /verif/bin/confirm_benign.py $P $n 2>&1 | tail -1
done
