#!/bin/sh
# usage: bin/round2.sh Cxx   -- confirm /tmp/seed-Cxx/out/{1,2,3} and file them as seeded/Cxx-{4,5,6}, then run the property's check on each
P=$1
for n in 1 2 3; do
  d=$((n+3))
  SEED_ROUND=2 python3 /verif/bin/confirm_seed.py $P $n $d 2>&1 | grep -E '"confirmed"|filed|does not|tests_pass|demo_exit' | tr '\n' ' '
  echo
done
python3 /verif/bin/seed_matrix.py $P-4 $P-5 $P-6 | grep -E "^$P-[456]"
