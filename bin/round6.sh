#!/bin/sh
# usage: bin/round3.sh Cxx -- confirm round-6 outputs: s13,s14 -> seeded/Cxx-13,14 ; f1,f2 -> benign/Cxx-f1,f2 ; then run the check on each
P=$1
for n in 13 14; do
  [ -f /tmp/seed-$P/out/s$n/patch.diff ] || continue
  SEED_ROUND=6 python3 /verif/bin/confirm_seed.py $P s$n $n 2>&1 | grep -E '"confirmed"|filed' | tr '\n' ' '; echo
done
for n in f1 f2; do
  [ -f /tmp/seed-$P/out/$n/patch.diff ] || continue
  python3 /verif/bin/confirm_benign.py $P $n 2>&1 | tail -1
done
