#!/usr/bin/env python3
"""One-off generator for /verif/known_findings.json: runs every check against the
pinned original tree (scratch worktree /tmp/phosg-orig at c91e635) and records, for each
violation found there, the fix commit in /repo that repaired it.  All entries are `fixed`:
they suppress nothing (the checks pass on the repaired tree and report the violation again
if it ever returns)."""
import json, os, subprocess, sys
ORIG = '/tmp/phosg-orig'
MAP = [  # (property, rule prefix, key substring) -> (commit, what failed)
 ('C03', 'C03-R3', 'operator++|', '755adc1', '++re_uint32_t(0x01020304) returned the stored (byte-swapped) representation 0x05030201 instead of 0x01020305; prefix --: same'),
 ('C03', 'C03-R3', 'operator--|', '755adc1', '++re_uint32_t(0x01020304) returned the stored (byte-swapped) representation 0x05030201 instead of 0x01020305; prefix --: same'),
 ('C03', 'C03-R2', 'ext48', 'db588d5', 'ext48(0x800000000000) was returned unchanged (tested bit 39, filled bits 40-55)'),
 ('C02', 'C02-R1', '', '72094c8', 'pget<uint32_t>(SIZE_MAX-1) returned data-2 without throwing; sub(1, SIZE_MAX) produced a child of 2^64-1 bytes (wrapping-sum guards)'),
 ('C02', 'C02-R3', '', '72094c8', 'StringWriter::pput(SIZE_MAX-1, v) resized to 2 bytes and copied at data+SIZE_MAX-1 (no wrap check)'),
 ('C01', 'C01-R6', '', '72094c8', 'StringWriter::pput(SIZE_MAX-1, v) resized to 2 bytes and copied at data+SIZE_MAX-1 (no wrap check)'),
 ('C02', 'C02-R2', 'get_line', 'e11d390', 'get_line() on an unterminated last line left where() == size()+1'),
 ('C02', 'C02-R2', '', '72094c8', 'cursor advances were justified only by wrapping-sum checks'),
 ('C04', 'C04-R2', 'float-marker', '5bc30b9', 'JSON(1e20).serialize() == "1e+20.0", which does not parse'),
 ('C05', 'C05-R8', '', '5bc30b9', '"5e-1" parsed to the integer 0'),
 ('C05', 'C05-R3', '', '630c272', 'strict mode rejected {} and []'),
 ('C05', 'C05-R4', '', '1762fb1', '{1:2} made JSON::type_error escape parse()'),
 ('C06', 'C06-R', '', 'a9f59a3', 'grayscale PPM load allocated W*H*(1+alpha) but expanded in place to W*H*(3+alpha); wrong source index with alpha; 16/32/64-bit samples narrowed through uint8_t'),
 ('C07', 'C07-R3', 'mask_blit', '6fea8d2', 'mask_blit(src, 0,0,3,3, 5,5, mask3x3) threw out_of_range'),
 ('C08', 'C08-R1', '', '5ca982c', 'join(split(",", \',\'), ",") == ""'),
 ('C09', 'C09-R1', '0x5C', 'e04d3b4', 'format_data_string("a\\\\nb") emitted a raw backslash; re-parsing gave a<LF>b'),
 ('C11', 'C11-R2', 'pad1', '772b751', 'base64_decode("QU\\xff=") succeeded (third symbol never validated)'),
 ('C12', 'C12-R1', 'c12_map', 'e284b89', 'LRUMap::insert(const K&, const V&, size_t) and at() const did not compile when instantiated'),
 ('C13', 'C13-R3', '', '7387fde', '~KDTree() on an empty tree dereferenced the null root'),
 ('C13', 'C13-R4', 'empty-tree', 'd11844c', 'within() on an empty tree threw while exists(low, high) returned false'),
 ('C13', 'C13-R2', '', '2cb588f', 'after erasing the root of {(5,5),(3,1),(3,9),(1,1)}, exists((3,9)) was false with size()==3'),
 ('C14', 'C14-R1', '', '37e0843', 'read_all(fd) stopped at the first short read (3 of 6 bytes from a pausing pipe writer)'),
 ('C14', 'C14-R2', '', '84a1a59', 'fgets(FILE*) returned 255 characters of a 600-character line'),
 ('C14', 'C14-R4', 'add', 'be0105b', 'Poll::add used upper_bound: add, add, remove left the set non-empty'),
 ('C15', 'C15-R1', '', 'c4f92ce', 'communicate(data, 0) always threw "timed out"'),
 ('C15', 'C15-R5', 'communicate|timeout', 'c4f92ce', 'communicate(data, 0) always threw "timed out"'),
 ('C15', 'C15-R4', 'run_process|closes', '7d024cb', '20 x run_process({"cat"}) leaked 40 descriptors'),
 ('C15', 'C15-R2', '', '895a918', 'communicate wrote the whole payload to a blocking pipe'),
 ('C15', 'C15-R3', 'communicate|post-exit', '895a918', 'communicate had no drain of stdout after the child exited'),
 ('C18', 'C18-R1', '', 'e4e978e', 'format_duration(65000000, 0) threw out_of_range (seconds_str.at(1) on "5")'),
 ('C19', 'C19-R3', '', '618a2ed', 'expect_raises(std::logic_error, []{}) and expect_raises(std::exception, []{}) passed silently'),
 ('C20', 'C20-R1', '', '0818df9', 'log2i<uint64_t>(1<<40) == 32; log2i<uint16_t>(256) == 65528 (__builtin_clz for every width)'),
]
full = {l.split()[0][:7]: l.split()[0] for l in subprocess.run(['git', '-C', '/repo', 'log', '--format=%H', 'c91e635..HEAD'], capture_output=True, text=True).stdout.split('\n') if l}
out = []
unmapped = []
for n in range(1, 21):
    pid = 'C%02d' % n
    env = dict(os.environ, VERIF_REPO=ORIG)
    subprocess.run([sys.executable, '/verif/sa/check.py', pid], env=env, stdout=subprocess.DEVNULL)
    ev = json.load(open('/verif/.work/evidence-alt/%s.json' % pid))
    seen = set()
    for smp in ev['coverage']['samples']:
        if smp['verdict'] != 'VIOLATED':
            continue
        rule, key = smp['rule'], smp['instance']
        m = next((x for x in MAP if x[0] == pid and rule.startswith(x[1]) and x[2] in key), None)
        if m is None:
            unmapped.append((pid, rule, key))
            continue
        tag = (rule, m[3])
        if tag in seen:
            continue
        seen.add(tag)
        out.append({'property': pid, 'rule': rule, 'key': key, 'status': 'fixed', 'commit': full.get(m[3], m[3]), 'what': m[4],
                    'line': 'fixed: property=%s %s %s' % (pid, m[3], m[4])})
json.dump({'note': 'Genuine defects of the pinned tree (c91e635) found by these checks and by the design-phase replays; every one was repaired by a minimal "fix:" commit in /repo. `fixed` entries suppress nothing. There are no `known` (unrepaired) findings.',
           'findings': out}, open('/verif/known_findings.json', 'w'), indent=1)
print(len(out), 'entries;', 'unmapped:', unmapped[:10])
