#!/bin/sh
# Build /repo's current tree exactly as the pinned baseline was built (guard off: there are no hooks) and run the 14 tests.
set -e
B=/verif/.work/baseline
rm -rf "$B"; mkdir -p "$B"
cmake -S /repo -B "$B" -G Ninja -DCMAKE_BUILD_TYPE=RelWithDebInfo -DCMAKE_CXX_FLAGS=-Wno-error -DCMAKE_C_FLAGS=-Wno-error >/dev/null
cmake --build "$B" -j16 >/dev/null
ctest --test-dir "$B" -j8 --timeout 900
