// Witness unit for C19 (front-end only, never executed): expands every
// expectation macro once and instantiates expect_raises_fn for exception types
// in different positions of the std hierarchy.
#include <functional>
#include <new>
#include <stdexcept>

#include "UnitTest.hh"

namespace phosg_witness_c19 {
using namespace phosg;
void m_eq(int a, int b) { expect_eq(a | 1, b | 2); }
void m_ne(int a, int b) { expect_ne(a | 1, b | 2); }
void m_gt(int a, int b) { expect_gt(a | 1, b | 2); }
void m_ge(int a, int b) { expect_ge(a | 1, b | 2); }
void m_lt(int a, int b) { expect_lt(a | 1, b | 2); }
void m_le(int a, int b) { expect_le(a | 1, b | 2); }
void m_expect(int a) { expect(a | 1); }
void m_msg(int a, const char* m) { expect_msg(a | 1, m); }
void m_raises(std::function<void()> f) { expect_raises(std::runtime_error, f); }
} // namespace phosg_witness_c19

template void phosg::expect_raises_fn<std::runtime_error>(const char*, uint64_t, std::function<void()>);
template void phosg::expect_raises_fn<std::logic_error>(const char*, uint64_t, std::function<void()>);
template void phosg::expect_raises_fn<std::out_of_range>(const char*, uint64_t, std::function<void()>);
template void phosg::expect_raises_fn<std::bad_alloc>(const char*, uint64_t, std::function<void()>);
template void phosg::expect_raises_fn<phosg::expectation_failed>(const char*, uint64_t, std::function<void()>);
template void phosg::expect_raises_fn<int>(const char*, uint64_t, std::function<void()>);
