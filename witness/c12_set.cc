// Witness unit for C12: every member of LRUSet must be well-formed when instantiated.
#include <string>

#include "LRUSet.hh"

template class phosg::LRUSet<int>;
template class phosg::LRUSet<std::string>;
