// Witness unit for C08 (front-end only): instantiates the header-only string
// templates whose bodies the rules inspect.
#include <deque>
#include <string>
#include <vector>

#include "Strings.hh"

template std::string phosg::join<std::vector<std::string>, const char*>(const std::vector<std::string>&, const char*&);
template std::string phosg::join<std::deque<std::string>, const std::string>(const std::deque<std::string>&, const std::string&);
template std::string phosg::join<std::vector<std::string>, const char>(const std::vector<std::string>&, const char&);
template std::string phosg::join<std::vector<std::string>>(const std::vector<std::string>&);
template void phosg::strip_trailing_zeroes<std::string>(std::string&);
template void phosg::strip_trailing_whitespace<std::string>(std::string&);
template void phosg::strip_leading_whitespace<std::string>(std::string&);
template void phosg::strip_whitespace<std::string>(std::string&);
template void phosg::strip_multiline_comments<std::string>(std::string&, bool);
