// Witness unit for C13: every (non-template) member of KDTree must be well-formed
// for 2-D and 3-D integer points.
#include <stdint.h>

#include "KDTree.hh"
#include "Vector.hh"

template class phosg::KDTree<phosg::Vector2<int64_t>, int>;
template class phosg::KDTree<phosg::Vector3<int64_t>, int>;
