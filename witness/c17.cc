// Witness unit for C17 (front-end only): instantiates the Arguments accessor
// templates for the 8 integer types, both float types, bool and std::string, and
// records mask_for_type<T> as template arguments the checker reads back.
#include <stdint.h>

#include <string>

#include "Arguments.hh"

namespace phosg_witness_c17 {
using namespace phosg;

template <uint64_t V>
struct Val {};

#define INT_TYPE(T, tag)                                                 \
  Val<mask_for_type<T>> mask_##tag;                                      \
  T get_named_##tag(Arguments& a, const std::string& n) {                \
    return a.get<T>(n);                                                  \
  }                                                                      \
  T get_pos_##tag(Arguments& a, size_t p) {                              \
    return a.get<T>(p, Arguments::IntFormat::HEX);                       \
  }                                                                      \
  T get_default_##tag(Arguments& a, const std::string& n) {              \
    return a.get<T>(n, static_cast<T>(5));                               \
  }                                                                      \
  std::vector<T> get_multi_##tag(Arguments& a, const std::string& n) {   \
    return a.get_multi<T>(n);                                            \
  }

INT_TYPE(uint8_t, u8)
INT_TYPE(int8_t, s8)
INT_TYPE(uint16_t, u16)
INT_TYPE(int16_t, s16)
INT_TYPE(uint32_t, u32)
INT_TYPE(int32_t, s32)
INT_TYPE(uint64_t, u64)
INT_TYPE(int64_t, s64)

float get_float(Arguments& a, const std::string& n) { return a.get<float>(n); }
double get_double(Arguments& a, size_t p) { return a.get<double>(p); }
double get_double_default(Arguments& a, const std::string& n) { return a.get<double>(n, 1.5); }
std::vector<double> get_multi_double(Arguments& a, const std::string& n) { return a.get_multi<double>(n); }
bool get_flag(Arguments& a) { return a.get<bool>("v"); }
const std::string& get_str_named(Arguments& a, const std::string& n) { return a.get<std::string>(n); }
const std::string& get_str_pos(Arguments& a, size_t p) { return a.get<std::string>(p); }
std::vector<std::string> get_multi_str(Arguments& a, const std::string& n) { return a.get_multi<std::string>(n); }
} // namespace phosg_witness_c17
