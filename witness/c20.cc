// Witness unit for C20 (front-end only): instantiates log2i/gcd for the 8 integer
// types, the vector classes for int64_t (every member) and double (selected members),
// and Matrix4 for int64_t and double.
#include <stdint.h>

#include "Math.hh"
#include "Strings.hh"
#include "Vector.hh"

#define INT_T(T)                          \
  template T phosg::log2i<T>(T);          \
  template T phosg::gcd<T>(T, T);
INT_T(uint8_t)
INT_T(int8_t)
INT_T(uint16_t)
INT_T(int16_t)
INT_T(uint32_t)
INT_T(int32_t)
INT_T(uint64_t)
INT_T(int64_t)

template struct phosg::Vector2<int64_t>;
template struct phosg::Vector3<int64_t>;
template struct phosg::Vector4<int64_t>;
template struct phosg::Matrix4<int64_t>;

template phosg::Vector3<double> phosg::Vector3<double>::cross(const phosg::Vector3<double>&) const;
template double phosg::Vector3<double>::dot(const phosg::Vector3<double>&) const;
template bool phosg::Vector3<double>::operator<(const phosg::Vector3<double>&) const;
template phosg::Vector4<double> phosg::Matrix4<double>::operator*(const phosg::Vector4<double>&) const;
template phosg::Matrix4<double> phosg::Matrix4<double>::operator*(const phosg::Matrix4<double>&) const;
template phosg::Matrix4<double> phosg::Matrix4<double>::operator*=(const phosg::Matrix4<double>&);
template phosg::Matrix4<double> phosg::Matrix4<double>::transposition() const;
template phosg::Matrix4<double>& phosg::Matrix4<double>::invert();
