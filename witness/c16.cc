// Witness unit for C16 (front-end only): instantiates the parallel_range family.
#include <stdint.h>

#include <functional>
#include <unordered_set>

#include "Tools.hh"

template uint64_t phosg::parallel_range<uint64_t>(std::function<bool(uint64_t, size_t)>, uint64_t, uint64_t, size_t, std::function<void(uint64_t, uint64_t, uint64_t, uint64_t)>);
template uint64_t phosg::parallel_range_blocks<uint64_t>(std::function<bool(uint64_t, size_t)>, uint64_t, uint64_t, uint64_t, size_t, std::function<void(uint64_t, uint64_t, uint64_t, uint64_t)>);
template std::unordered_set<uint64_t> phosg::parallel_range_blocks_multi<uint64_t, std::unordered_set<uint64_t>>(std::function<bool(uint64_t, size_t)>, uint64_t, uint64_t, uint64_t, size_t, std::function<void(uint64_t, uint64_t, uint64_t, uint64_t)>);
template uint32_t phosg::parallel_range<uint32_t>(std::function<bool(uint32_t, size_t)>, uint32_t, uint32_t, size_t, std::function<void(uint32_t, uint32_t, uint32_t, uint64_t)>);
template uint32_t phosg::parallel_range_blocks<uint32_t>(std::function<bool(uint32_t, size_t)>, uint32_t, uint32_t, uint32_t, size_t, std::function<void(uint32_t, uint32_t, uint32_t, uint64_t)>);
