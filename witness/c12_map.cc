// Witness unit for C12: every member of LRUMap must be well-formed when instantiated.
#include <string>

#include "LRUMap.hh"

template class phosg::LRUMap<int, std::string>;
template class phosg::LRUMap<std::string, int>;
