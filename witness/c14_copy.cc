// Must-NOT-compile witness for C14: a scoped_fd cannot be copied (each of the two
// statements below has to be rejected by the compiler).
#include "Filesystem.hh"

void copy_construct(phosg::scoped_fd& a) {
  phosg::scoped_fd b(a); // expected-error
}
void copy_assign(phosg::scoped_fd& a, phosg::scoped_fd& b) {
  b = a; // expected-error
}
