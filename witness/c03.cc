// Witness unit for C03/C01 (front-end only, never executed): instantiates every
// member (including the member-template compound operators) of all 24 endian
// wrapper aliases, the sign_extend matrix, and records layout facts as template
// arguments that the checker reads back from the AST.
#include <stddef.h>
#include <stdint.h>

#include <type_traits>

#include "Encoding.hh"

namespace phosg_witness_c03 {
using namespace phosg;

template <size_t Size, size_t Align, bool TriviallyCopyable, bool StandardLayout>
struct Layout {};

template <typename W>
using LayoutOf = Layout<sizeof(W), alignof(W), std::is_trivially_copyable_v<W>, std::is_standard_layout_v<W>>;

template <typename W, typename E, typename R>
void arith_ops(W& w, E e, R d) {
  w = e;
  w += d;
  w -= d;
  w *= d;
  w /= d;
  ++w;
  --w;
  w++;
  w--;
  E x = w;
  (void)x;
  (void)w.load();
  w.store(e);
  (void)w.load_raw();
  w.store_raw(w.load_raw());
  W copy(e);
  (void)copy;
}

template <typename W, typename E, typename R>
void int_ops(W& w, E e, R d) {
  arith_ops<W, E, R>(w, e, d);
  w %= d;
  w &= d;
  w |= d;
  w ^= d;
  w <<= d;
  w >>= d;
}

// Each wrapper is exercised with the operand type equal to the exposed type and
// with a different operand type (so that a conversion inserted around the
// operand is visible as a cast node): double for the arithmetic operators,
// signed char for the integer-only operators, int for the float wrappers.
#define INT_WRAPPER(alias, exposed)                                      \
  using layout_##alias = LayoutOf<alias>;                                \
  layout_##alias layout_value_##alias;                                   \
  template void int_ops<alias, exposed, exposed>(alias&, exposed, exposed); \
  template void int_ops<alias, exposed, signed char>(alias&, exposed, signed char); \
  template void arith_ops<alias, exposed, double>(alias&, exposed, double);
#define FLOAT_WRAPPER(alias, exposed)                                    \
  using layout_##alias = LayoutOf<alias>;                                \
  layout_##alias layout_value_##alias;                                   \
  template void arith_ops<alias, exposed, exposed>(alias&, exposed, exposed); \
  template void arith_ops<alias, exposed, int>(alias&, exposed, int);

INT_WRAPPER(re_uint16_t, uint16_t)
INT_WRAPPER(re_int16_t, int16_t)
INT_WRAPPER(re_uint32_t, uint32_t)
INT_WRAPPER(re_int32_t, int32_t)
INT_WRAPPER(re_uint64_t, uint64_t)
INT_WRAPPER(re_int64_t, int64_t)
FLOAT_WRAPPER(re_float, float)
FLOAT_WRAPPER(re_double, double)
INT_WRAPPER(le_uint16_t, uint16_t)
INT_WRAPPER(le_int16_t, int16_t)
INT_WRAPPER(le_uint32_t, uint32_t)
INT_WRAPPER(le_int32_t, int32_t)
INT_WRAPPER(le_uint64_t, uint64_t)
INT_WRAPPER(le_int64_t, int64_t)
FLOAT_WRAPPER(le_float, float)
FLOAT_WRAPPER(le_double, double)
INT_WRAPPER(be_uint16_t, uint16_t)
INT_WRAPPER(be_int16_t, int16_t)
INT_WRAPPER(be_uint32_t, uint32_t)
INT_WRAPPER(be_int32_t, int32_t)
INT_WRAPPER(be_uint64_t, uint64_t)
INT_WRAPPER(be_int64_t, int64_t)
FLOAT_WRAPPER(be_float, float)
FLOAT_WRAPPER(be_double, double)

} // namespace phosg_witness_c03

// sign_extend<ResultT, SrcT> for every pair with sizeof(SrcT) < sizeof(ResultT)
template int16_t phosg::sign_extend<int16_t, uint8_t>(uint8_t);
template int32_t phosg::sign_extend<int32_t, uint8_t>(uint8_t);
template int64_t phosg::sign_extend<int64_t, uint8_t>(uint8_t);
template int32_t phosg::sign_extend<int32_t, uint16_t>(uint16_t);
template int64_t phosg::sign_extend<int64_t, uint16_t>(uint16_t);
template int64_t phosg::sign_extend<int64_t, uint32_t>(uint32_t);
template int16_t phosg::sign_extend<int16_t, int8_t>(int8_t);
template int32_t phosg::sign_extend<int32_t, int16_t>(int16_t);
template int64_t phosg::sign_extend<int64_t, int32_t>(int32_t);
template uint32_t phosg::sign_extend<uint32_t, uint16_t>(uint16_t);
template uint64_t phosg::sign_extend<uint64_t, uint32_t>(uint32_t);
